"""TLC driver: run tlc on a module of /verif/spec, parse counts, coverage, PrintT values, violations."""
import os
import re
import shutil
import subprocess
import tempfile
import time

ROOT = os.path.dirname(os.path.dirname(os.path.abspath(__file__)))
SPEC = os.path.join(ROOT, 'spec')
OUT = os.path.join(ROOT, 'out')
NCPU = os.cpu_count() or 4


class TLCError(Exception):
    """Machinery failure (not a property violation)."""


class TLCResult:
    def __init__(self):
        self.generated = 0
        self.distinct = 0
        self.depth = 0
        self.ok = False
        self.violation = None     # name of violated invariant/property, or 'deadlock', 'assert'
        self.cex = []             # counterexample states (text)
        self.printed = []         # PrintT outputs (text)
        self.coverage = {}        # action name -> (distinct, generated)
        self.stdout = ''
        self.wall = 0.0
        self.cmd = ''
        self.all_violations = []


def write_cfg(path, spec='Spec', constants=None, invariants=(), properties=(), constraint=None,
              view=None, deadlock=False, postcondition=None, init=None, next_=None, extra=''):
    lines = []
    if init:
        lines += [f'INIT {init}', f'NEXT {next_}']
    else:
        lines.append(f'SPECIFICATION {spec}')
    if constants:
        lines.append('CONSTANTS')
        for k, v in constants.items():
            lines.append(f'  {k} {v}' if str(v).startswith('<-') else f'  {k} = {v}')
    for i in invariants:
        lines.append(f'INVARIANT {i}')
    for p in properties:
        lines.append(f'PROPERTY {p}')
    if constraint:
        lines.append(f'CONSTRAINT {constraint}')
    if view:
        lines.append(f'VIEW {view}')
    if postcondition:
        lines.append(f'POSTCONDITION {postcondition}')
    lines.append(f'CHECK_DEADLOCK {"TRUE" if deadlock else "FALSE"}')
    if extra:
        lines.append(extra)
    with open(path, 'w') as f:
        f.write('\n'.join(lines) + '\n')


_counts = re.compile(r'(\d+) states generated, (\d+) distinct states found')
_depth = re.compile(r'The depth of the complete state graph search is (\d+)')
_cov = re.compile(r'^<(\w+) line \d+, col \d+ to line \d+, col \d+ of module (\w+)>: (\d+):(\d+)', re.M)


def run_tlc(module, cfg, workdir=None, workers=None, timeout=1800, env=None, simulate=None,
            depth=None, dump=None, coverage=False, seed=None, extra_args=(), java_opts=None,
            keep=False, dfs=False, cont=False):
    """Run TLC on /verif/spec/<module>.tla with config file cfg (absolute, or relative to spec/).

    simulate: None or string like 'num=100' (adds -simulate); dump: path prefix for -dump dot,actionlabels.
    """
    os.makedirs(OUT, exist_ok=True)
    meta = tempfile.mkdtemp(prefix='tlc_', dir=OUT)
    if not os.path.isabs(cfg):
        cfg = os.path.join(SPEC, cfg)
    wd = workdir or SPEC
    cmd = ['tlc', '-noGenerateSpecTE', '-metadir', meta, '-config', cfg]
    cmd += ['-workers', str(workers or NCPU)]
    if simulate is not None:
        cmd += ['-simulate', simulate]
    if depth is not None:
        cmd += ['-depth', str(depth)]
    if dump:
        cmd += ['-dump', 'dot,actionlabels', dump]
    if coverage:
        cmd += ['-coverage', '1']
    if seed is not None:
        cmd += ['-seed', str(seed)]
    if cont:
        cmd.append('-continue')
    cmd += list(extra_args)
    cmd.append(module)
    e = dict(os.environ)
    jo = java_opts or '-Xmx8g -Xss512m'
    if dfs:
        jo += ' -Dtlc2.tool.queue.IStateQueue=StateDeque'
    # TLC unpacks its standard modules into java.io.tmpdir and leaves them there: keep that inside the run's metadir (removed below)
    jo += f' -Djava.io.tmpdir={meta}'
    e['JAVA_TOOL_OPTIONS'] = jo
    if env:
        e.update({k: str(v) for k, v in env.items()})
    res = TLCResult()
    res.cmd = ' '.join(cmd)
    t0 = time.time()
    try:
        p = subprocess.run(cmd, cwd=wd, env=e, capture_output=True, text=True, timeout=timeout)
    except subprocess.TimeoutExpired as ex:
        subprocess.run(['pkill', '-f', meta], check=False)
        shutil.rmtree(meta, ignore_errors=True)
        raise TLCError(f'TLC timeout after {timeout}s: {" ".join(cmd)}') from ex
    finally:
        res.wall = time.time() - t0
    out = p.stdout + p.stderr
    res.stdout = out
    if not keep:
        shutil.rmtree(meta, ignore_errors=True)
    ms = _counts.findall(out)
    if ms:
        res.generated, res.distinct = int(ms[-1][0]), int(ms[-1][1])
    md = _depth.search(out)
    if md:
        res.depth = int(md.group(1))
    for m in _cov.finditer(out):
        name = m.group(1)
        d, g = int(m.group(3)), int(m.group(4))
        old = res.coverage.get(name, (0, 0))
        res.coverage[name] = (old[0] + d, old[1] + g)
    res.printed = _parse_printed(out)
    res.all_violations = [(a, int(b)) for a, b in re.findall(r'Error: Invariant (\w+) is violated by the initial state:\s*\n(?:/\\ )?k = (\d+)', out)]
    if 'Model checking completed. No error has been found.' in out or \
            (simulate is not None and 'Error:' not in out and p.returncode == 0):
        res.ok = True
    else:
        mi = re.search(r'Error: Invariant (\w+) is violated', out)
        mp = re.search(r'Error: (?:Temporal properties were violated|Action property (\w+) is violated)', out)
        if mi:
            res.violation = mi.group(1)
        elif mp:
            res.violation = mp.group(1) or 'temporal'
        elif 'Error: Deadlock reached' in out:
            res.violation = 'deadlock'
        elif 'Error: Postcondition' in out or 'Assumption' in out and 'is false' in out:
            res.violation = 'postcondition'
        elif 'The first argument of Assert evaluated to FALSE' in out:
            res.violation = 'assert'
        else:
            k = out.find('Error:')
            raise TLCError('TLC failed:\n' + (out[max(0, k - 300):k + 2500] if k >= 0 else out[-4000:]))
        res.cex = _parse_states(out)
    return res


def _parse_printed(out):
    """PrintT values: lines not belonging to TLC's own messages.  Values we print are always
    tuples <<"tag", ...>> or records; parse by bracket matching across lines."""
    vals = []
    buf = ''
    depth = 0
    for line in out.splitlines():
        if depth == 0:
            if line.startswith('<<"') or line.startswith('<< "'):
                buf = line
                depth = _bal(line)
                if depth == 0:
                    vals.append(buf)
                    buf = ''
        else:
            buf += ' ' + line.strip()
            depth += _bal(line)
            if depth <= 0:
                vals.append(buf)
                buf = ''
                depth = 0
    return vals


def _bal(s):
    for tok in ('|->', ':>', '->', '<=', '>=', '=>', '=<'):
        s = s.replace(tok, '  ')
    d = 0
    instr = False
    for ch in s:
        if ch == '"':
            instr = not instr
        elif not instr:
            if ch in '<[({':
                d += 1
            elif ch in '>])}':
                d -= 1
    return d


def _parse_states(out):
    states = []
    cur = None
    for line in out.splitlines():
        if re.match(r'^State \d+:', line):
            cur = [line]
            states.append(cur)
        elif cur is not None:
            if line.strip() == '' or line.startswith(('Error', 'Finished', 'The ')) or re.match(r'^\d+ states', line):
                cur = None
            else:
                cur.append(line)
    return ['\n'.join(s) for s in states]


# ---- TLA+ value parsing (for PrintT / dump output) ---------------------------------------------

def parse_value(s):
    """Parse a TLA+ value printed by TLC into Python: <<..>> -> tuple, {..} -> frozenset,
    [a |-> ..] -> dict, (k :> v @@ ..) -> dict, strings, ints, TRUE/FALSE."""
    v, i = _pv(s, 0)
    return v


def _ws(s, i):
    while i < len(s) and s[i] in ' \n\t\r':
        i += 1
    return i


def _pv(s, i):
    i = _ws(s, i)
    if s.startswith('<<', i):
        i += 2
        items = []
        i = _ws(s, i)
        if s.startswith('>>', i):
            return (), i + 2
        while True:
            v, i = _pv(s, i)
            items.append(v)
            i = _ws(s, i)
            if s.startswith('>>', i):
                return tuple(items), i + 2
            assert s[i] == ',', (s[i:i + 20],)
            i += 1
    if s[i] == '{':
        i += 1
        items = []
        i = _ws(s, i)
        if s[i] == '}':
            return frozenset(), i + 1
        while True:
            v, i = _pv(s, i)
            items.append(v)
            i = _ws(s, i)
            if s[i] == '}':
                return frozenset(_hashable(x) for x in items), i + 1
            assert s[i] == ',', (s[i:i + 20],)
            i += 1
    if s[i] == '[':
        i += 1
        d = {}
        while True:
            i = _ws(s, i)
            j = i
            while s[j] not in ' |':
                j += 1
            key = s[i:j]
            i = _ws(s, j)
            assert s.startswith('|->', i), s[i:i + 20]
            v, i = _pv(s, i + 3)
            d[key] = v
            i = _ws(s, i)
            if s[i] == ']':
                return d, i + 1
            assert s[i] == ',', (s[i:i + 20],)
            i += 1
    if s[i] == '(':
        i += 1
        d = {}
        while True:
            k, i = _pv(s, i)
            i = _ws(s, i)
            assert s.startswith(':>', i), s[i:i + 20]
            v, i = _pv(s, i + 2)
            d[_hashable(k)] = v
            i = _ws(s, i)
            if s[i] == ')':
                return d, i + 1
            assert s.startswith('@@', i), s[i:i + 20]
            i += 2
    if s[i] == '"':
        j = i + 1
        while s[j] != '"':
            if s[j] == '\\':
                j += 1
            j += 1
        return s[i + 1:j].replace('\\"', '"').replace('\\\\', '\\'), j + 1
    m = re.match(r'-?\d+', s[i:])
    if m:
        return int(m.group(0)), i + len(m.group(0))
    if s.startswith('TRUE', i):
        return True, i + 4
    if s.startswith('FALSE', i):
        return False, i + 5
    m = re.match(r'[A-Za-z_]\w*', s[i:])
    if m:
        return m.group(0), i + len(m.group(0))
    raise ValueError('cannot parse TLA+ value at: ' + s[i:i + 40])


def _hashable(x):
    if isinstance(x, dict):
        return tuple(sorted((k, _hashable(v)) for k, v in x.items()))
    if isinstance(x, (list, tuple)):
        return tuple(_hashable(y) for y in x)
    return x


def to_tla(v):
    """Python -> TLA+ literal (ints, bools, str, list/tuple -> sequence, set -> set, dict -> record)."""
    if isinstance(v, bool):
        return 'TRUE' if v else 'FALSE'
    if isinstance(v, int):
        return str(v)
    if isinstance(v, str):
        return '"' + v + '"'
    if isinstance(v, (list, tuple)):
        return '<<' + ', '.join(to_tla(x) for x in v) + '>>'
    if isinstance(v, (set, frozenset)):
        return '{' + ', '.join(to_tla(x) for x in sorted(v, key=repr)) + '}'
    if isinstance(v, dict):
        return '[' + ', '.join(f'{k} |-> {to_tla(x)}' for k, x in v.items()) + ']'
    raise TypeError(v)


def make_workdir(files=None, prefix='wd_'):
    """Temp dir under out/ with symlinks to every spec/*.tla plus generated files {name: text}."""
    os.makedirs(OUT, exist_ok=True)
    wd = tempfile.mkdtemp(prefix=prefix, dir=OUT)
    for fn in os.listdir(SPEC):
        if fn.endswith('.tla'):
            os.symlink(os.path.join(SPEC, fn), os.path.join(wd, fn))
    for name, text in (files or {}).items():
        p = os.path.join(wd, name)
        if os.path.islink(p):
            os.unlink(p)
        with open(p, 'w') as f:
            f.write(text)
    return wd


def rm_workdir(wd):
    shutil.rmtree(wd, ignore_errors=True)
