"""Batch evaluation of many independent cases of secure operations in one real world."""
import random

from .sim.world import World, RandomScheduler, PriorityScheduler


async def _batch(mpc, cases, evaluator, ctxarg, chunk, case_timeout=None):
    import asyncio
    await mpc.start()
    out = []
    failed = False
    for i in range(0, len(cases), chunk):
        pend = []
        for j, case in enumerate(cases[i:i + chunk]):
            pend.append(evaluator(mpc, case, i + j, ctxarg))
        for j, p in enumerate(pend):
            try:
                if case_timeout:
                    # virtual-time timeout: a case whose coroutine died (exception inside an MPyC task) never completes
                    c = cases[i + j]
                    to = c.get('timeout', case_timeout) if isinstance(c, dict) else case_timeout
                    out.append(await asyncio.wait_for(p, to))
                else:
                    out.append(await p)
            except Exception as exc:          # an exception raised by the operation itself
                out.append({'exc': type(exc).__name__ + ':' + str(exc)[:80]})
                failed = True
    if not failed or not case_timeout:
        # (a coroutine that died leaves _pc_level > 0 for ever: shutdown() would spin; skip it then)
        if case_timeout:
            # a case may have failed at OTHER parties only (they skip shutdown): do not wait for them for ever
            try:
                await asyncio.wait_for(mpc.shutdown(), 20 * case_timeout)
            except Exception:
                pass
        else:
            await mpc.shutdown()
    return out


def run_batch(cases, evaluator, m, t, seed=0, no_prss=False, sec_param=30, ctxarg=None, chunk=40,
              scheduler=None, max_steps=40000000, options=None, case_timeout=None):
    """evaluator(mpc, case, index, ctxarg) -> awaitable giving a JSON-able result.
    Returns (status, results per party, errors)."""
    w = World(m, t, seed=seed, no_prss=no_prss, sec_param=sec_param, options=options)
    w.keep_trace = False        # millions of steps: the schedule trace is not needed for batches
    try:
        w.spawn(_batch, cases, evaluator, ctxarg, chunk, case_timeout)
        # (tasks of a case that never completes may spin for ever: stop once every party's batch has returned)
        st = w.run(scheduler or RandomScheduler(seed, 'all'), max_steps=max_steps, until_done=True)
    finally:
        w.close()
    return st, w.results, w.errors


def configs(quick, seed):
    """(m, t, no_prss) party configurations"""
    if quick:
        return [(1, 0, False), (3, 1, False), (3, 1, True), (4, 1, False)]
    return [(1, 0, False), (2, 0, False), (3, 1, False), (3, 1, True), (4, 1, True), (5, 2, False), (5, 2, True),
            (7, 3, False), (3, 0, False), (5, 1, True)]
