"""In-process world simulator: m real MPyC parties under a scheduler-controlled event loop and
byte-level network.  Runtime.start()/shutdown() and all of mpyc run unmodified.

A *schedule* is the sequence of scheduler actions taken; every action is one of
  ('run', i)            one event-loop iteration of party i (all handles ready at its start)
  ('accept', c)         server side of connection c gets its protocol + connection_made
  ('arrive', src, dst, k)  k bytes of wire src->dst are handed to dst's data_received
  ('eof', src, dst)     end-of-stream (after close/crash of src) reaches dst
and is chosen by a Scheduler object (seeded random, priority families, replay of a fixed list).
"""
import asyncio
import heapq
import importlib
import os
import random
import sys
import types

_MODS = ('mpyc.sectypes', 'mpyc.asyncoro', 'mpyc.mpctools', 'mpyc.seclists', 'mpyc.secpols',
         'mpyc.secgroups', 'mpyc.random', 'mpyc.statistics')


def load_mpyc():
    """Import mpyc from $VERIF_REPO (default /repo) -- always the current working tree."""
    repo = os.environ.get('VERIF_REPO', '/repo')
    if 'mpyc' not in sys.modules:
        sys.path.insert(0, repo)
        argv = sys.argv
        sys.argv = [argv[0], '--no-log']
        try:
            import mpyc.runtime  # noqa
        finally:
            sys.argv = argv
    import mpyc
    assert os.path.realpath(os.path.dirname(mpyc.__file__)) == os.path.realpath(os.path.join(repo, 'mpyc')), \
        (mpyc.__file__, repo)
    return sys.modules['mpyc.runtime']


class _NullSelector:
    def select(self, timeout=None):
        return []

    def close(self):
        pass


class SimLoop(asyncio.BaseEventLoop):
    """Event loop of one party: no selector, virtual clock, network provided by the world."""

    def __init__(self, world, pid):
        super().__init__()
        self.world = world
        self.pid = pid
        self._selector = _NullSelector()
        self._clock_resolution = 1e-9

    def time(self):
        return self.world.clock

    def _process_events(self, event_list):
        pass

    def _write_to_self(self):
        pass

    def runnable(self):
        if self._ready:
            return True
        # drop cancelled timers at the head
        while self._scheduled and self._scheduled[0]._cancelled:
            h = heapq.heappop(self._scheduled)
            h._scheduled = False
        return bool(self._scheduled) and self._scheduled[0]._when <= self.world.clock + 1e-9

    def next_timer(self):
        while self._scheduled and self._scheduled[0]._cancelled:
            h = heapq.heappop(self._scheduled)
            h._scheduled = False
        return self._scheduled[0]._when if self._scheduled else None

    async def create_server(self, factory, host=None, port=None, **kw):
        return self.world.net.listen(self.pid, port, factory)

    async def create_connection(self, factory, host=None, port=None, **kw):
        return self.world.net.connect(self.pid, port, factory)


class SimServer:
    def __init__(self, net, port):
        self.net = net
        self.port = port

    def close(self):
        self.net.listeners.pop(self.port, None)


class SimTransport:
    """One end of a connection."""

    def __init__(self, net, conn, me, peer):
        self.net = net
        self.conn = conn
        self.me = me
        self.peer = peer
        self.protocol = None
        self.closing = False      # close() called locally or EOF seen
        self.lost_called = False

    def write(self, data):
        if self.closing or self.net.world.crashed[self.me]:
            return
        data = bytes(data)
        if data:
            self.conn.wire[self.me] += data
            self.conn.sent[self.me] += data
            self.net.world.note_write(self.me, self.peer, data)

    def writelines(self, lst):
        self.write(b''.join(bytes(x) for x in lst))

    def is_closing(self):
        return self.closing

    def close(self):
        if self.closing:
            return
        self.closing = True
        self.conn.eof_pending[self.me] = True     # EOF follows the bytes already written
        self.net.world.note_close(self.me, self.peer)
        self._lost(None)

    def abort(self):
        self.close()

    def get_extra_info(self, name, default=None):
        return default

    def _lost(self, exc):
        if self.lost_called or self.protocol is None:
            return
        self.lost_called = True
        loop = self.net.world.loops[self.me]
        loop.call_soon(self.protocol.connection_lost, exc)


class Conn:
    """Bidirectional connection client -> server (client has the lower pid in MPyC)."""

    def __init__(self, client, server, server_factory):
        self.client = client
        self.server = server
        self.server_factory = server_factory
        self.accepted = False
        self.wire = {client: bytearray(), server: bytearray()}   # bytes written by key, not yet arrived
        self.sent = {client: bytearray(), server: bytearray()}   # everything ever written by key
        self.arrived = {client: 0, server: 0}                    # bytes of key's stream handed to the peer
        self.eof_pending = {client: False, server: False}        # key closed; EOF not yet seen by peer
        self.eof_exc = {client: None, server: None}
        self.tr = {}

    def other(self, i):
        return self.server if i == self.client else self.client


class SimNet:
    def __init__(self, world):
        self.world = world
        self.listeners = {}
        self.conns = {}     # (client, server) -> Conn

    def listen(self, pid, port, factory):
        self.listeners[port] = (pid, factory)
        return SimServer(self, port)

    def connect(self, pid, port, factory):
        if port not in self.listeners:
            raise ConnectionRefusedError(f'sim: nobody listens on {port}')
        spid, sfactory = self.listeners[port]
        conn = Conn(pid, spid, sfactory)
        self.conns[(pid, spid)] = conn
        tr = SimTransport(self, conn, pid, spid)
        conn.tr[pid] = tr
        proto = factory()
        tr.protocol = proto
        proto.connection_made(tr)
        return tr, proto

    def accept(self, conn):
        tr = SimTransport(self, conn, conn.server, conn.client)
        conn.tr[conn.server] = tr
        proto = conn.server_factory()
        tr.protocol = proto
        conn.accepted = True
        self.world.loops[conn.server].call_soon(proto.connection_made, tr)


class Options:
    """Stand-in for the argparse namespace produced by mpyc._get_arg_parser()."""

    def __init__(self, **kw):
        d = dict(threshold=None, no_log=True, no_async=False, no_barrier=False, no_prss=False,
                 mix32_64bit=False, ssl=False, bit_length=32, sec_param=30, workers=0,
                 no_gmpy2=False, no_numpy=False, no_uvloop=True, log_level='info', M=None,
                 index=None, base_port=None, config=None, parties=None, output_windows=False,
                 output_file=False, f='', VERSION=False, HELP=False, help=False)
        d.update(kw)
        self.__dict__.update(d)


class World:
    """m parties, one process."""

    def __init__(self, m, t=None, seed=0, no_prss=False, sec_param=30, bit_length=32,
                 no_barrier=False, options=None, rand=None):
        self.rtmod = load_mpyc()
        self.m = m
        self.t = (m - 1) // 2 if t is None else t
        assert 2 * self.t < m
        self.seed = seed
        self.clock = 0.0
        self.steps = 0
        self.crashed = [False] * m
        self.errors = [[] for _ in range(m)]
        self.trace = []          # scheduler actions taken (not kept for batch worlds: keep_trace = False)
        self.keep_trace = True
        self.observers = []      # objects with optional note_* methods
        self.net = SimNet(self)
        self.rand = rand if rand is not None else random.Random(seed)
        clear_caches()
        self.loops = []
        self.rts = []
        self.tasks = [None] * m
        self.results = [None] * m
        self.done = [False] * m
        opts = dict(threshold=self.t, no_prss=no_prss, sec_param=sec_param, bit_length=bit_length,
                    no_barrier=no_barrier)
        if options:
            opts.update(options)
        self._install_rng()
        for i in range(m):
            loop = SimLoop(self, i)
            self.loops.append(loop)
            asyncio.set_event_loop(loop)
            parties = [self.rtmod.Party(j, 'localhost', 11365 + j) for j in range(m)]
            rt = self.rtmod.Runtime(i, parties, Options(**opts))
            loop.set_exception_handler(self._make_handler(i))
            self.rts.append(rt)
        asyncio.set_event_loop(None)
        self.current = None

    # ---- randomness ----------------------------------------------------------------------
    def _install_rng(self):
        import secrets
        self._secrets_saved = (secrets.randbelow, secrets.randbits, secrets.token_bytes)
        r = self.rand
        w = self

        def randbelow(n):
            v = w.rng_hook('randbelow', n) if w.rng_hook else None
            if v is None:
                v = r.randrange(n)
            w.note_rand('randbelow', n, v)
            return v

        def randbits(k):
            v = w.rng_hook('randbits', k) if w.rng_hook else None
            if v is None:
                v = r.getrandbits(k) if k else 0
            w.note_rand('randbits', k, v)
            return v

        def token_bytes(n=32):
            return bytes(r.getrandbits(8) for _ in range(n))
        self.rng_hook = None
        secrets.randbelow, secrets.randbits, secrets.token_bytes = randbelow, randbits, token_bytes

    def close(self):
        import secrets
        secrets.randbelow, secrets.randbits, secrets.token_bytes = self._secrets_saved
        for i in range(self.m):
            self._switch(None)
        for t in self.tasks:
            if t is not None and not t.done():
                t._log_destroy_pending = False
        for loop in self.loops:
            # drop pending work silently
            for h in list(loop._ready):
                h.cancel()
            loop._ready.clear()
            loop._scheduled.clear()
        asyncio.set_event_loop(None)

    # ---- observers -----------------------------------------------------------------------
    def note_write(self, src, dst, data):
        for o in self.observers:
            f = getattr(o, 'note_write', None)
            if f:
                f(src, dst, data)

    def note_close(self, src, dst):
        for o in self.observers:
            f = getattr(o, 'note_close', None)
            if f:
                f(src, dst)

    def note_rand(self, fn, arg, val):
        for o in self.observers:
            f = getattr(o, 'note_rand', None)
            if f:
                f(self.current, fn, arg, val)

    def _make_handler(self, i):
        def handler(loop, context):
            exc = context.get('exception')
            msg = context.get('message', '')
            if exc is None and 'destroyed but it is pending' in msg:
                return
            self.errors[i].append((repr(exc) if exc is not None else msg))
            if exc is not None and os.environ.get('VERIF_TRACEBACK'):
                import traceback
                self.errors[i].append(''.join(traceback.format_exception(type(exc), exc, exc.__traceback__))[-1500:])
        return handler

    # ---- party switching -----------------------------------------------------------------
    def _switch(self, i):
        rt = None if i is None else self.rts[i]
        for name in _MODS:
            mod = sys.modules.get(name)
            if mod is not None:
                mod.runtime = rt
        self.current = i

    def spawn(self, main, *args):
        """Start coroutine function main(rt, *args) on every party."""
        for i in range(self.m):
            self.spawn_one(i, main, *args)

    def spawn_one(self, i, main, *args):
        loop = self.loops[i]
        self._switch(i)
        asyncio.events._set_running_loop(None)

        async def runner(i=i):
            try:
                self.results[i] = await main(self.rts[i], *args)
            finally:
                self.done[i] = True
        t = loop.create_task(runner())
        self.tasks[i] = t
        return t

    # ---- scheduler actions ---------------------------------------------------------------
    def enabled(self):
        acts = []
        for i in range(self.m):
            if not self.crashed[i] and self.loops[i].runnable():
                acts.append(('run', i))
        for key, c in self.net.conns.items():
            if not c.accepted:
                if not self.crashed[c.server]:
                    acts.append(('accept', key))
                continue
            for src in (c.client, c.server):
                dst = c.other(src)
                if self.crashed[dst]:
                    continue
                trd = c.tr.get(dst)
                if trd is None or trd.closing:
                    continue
                if c.wire[src]:
                    acts.append(('arrive', src, dst))
                elif c.eof_pending[src]:
                    acts.append(('eof', src, dst))
        return acts

    def step_run(self, i):
        loop = self.loops[i]
        self._switch(i)
        asyncio.events._set_running_loop(loop)
        try:
            loop._run_once()
        finally:
            asyncio.events._set_running_loop(None)
        self.clock += 1e-4            # virtual time passes during iterations
        self.steps += 1
        if self.keep_trace:
            self.trace.append(('run', i))

    def step_accept(self, key):
        self.net.accept(self.net.conns[key])
        self.steps += 1
        self.trace.append(('accept', key))

    def step_arrive(self, src, dst, k):
        c = self.net.conns[(min(src, dst), max(src, dst))]
        k = min(k, len(c.wire[src]))
        data = bytes(c.wire[src][:k])
        del c.wire[src][:k]
        c.arrived[src] += k
        tr = c.tr[dst]
        self.loops[dst].call_soon(tr.protocol.data_received, data)
        for o in self.observers:
            f = getattr(o, 'note_arrive', None)
            if f:
                f(src, dst, data)
        self.steps += 1
        if self.keep_trace:
            self.trace.append(('arrive', src, dst, k))

    def step_eof(self, src, dst):
        c = self.net.conns[(min(src, dst), max(src, dst))]
        c.eof_pending[src] = False
        tr = c.tr[dst]
        tr.closing = True
        tr._lost(c.eof_exc[src])
        self.steps += 1
        self.trace.append(('eof', src, dst))

    def crash(self, i, cuts=None, exc=None):
        """Party i stops forever.  cuts: {peer: number of not-yet-arrived bytes that still get out}."""
        self.crashed[i] = True
        for key, c in self.net.conns.items():
            if i not in key:
                continue
            keep = (cuts or {}).get(c.other(i), len(c.wire[i]))
            del c.wire[i][keep:]
            c.eof_pending[i] = True
            c.eof_exc[i] = exc
        self.trace.append(('crash', i, dict(cuts or {}), repr(exc)))

    def advance_time(self):
        ts = [t for t in (self.loops[i].next_timer() for i in range(self.m) if not self.crashed[i])
              if t is not None]
        if ts and min(ts) > self.clock:
            self.clock = min(ts)
            return True
        return False

    def all_done(self):
        return all(self.done[i] or self.crashed[i] for i in range(self.m))

    def run(self, scheduler, max_steps=400000, until_done=False):
        """Run to quiescence (until_done: only until every party's main coroutine has returned).
        Returns 'done' | 'deadlock' | 'budget'."""
        while self.steps < max_steps:
            if until_done and self.all_done():
                return 'done'
            acts = self.enabled()
            if not acts:
                if self.advance_time():
                    continue
                return 'done' if self.all_done() else 'deadlock'
            a = scheduler.pick(self, acts)
            if a[0] == 'run':
                self.step_run(a[1])
            elif a[0] == 'accept':
                self.step_accept(a[1])
            elif a[0] == 'arrive':
                c = self.net.conns[(min(a[1], a[2]), max(a[1], a[2]))]
                k = a[3] if len(a) > 3 else scheduler.chunk(self, a[1], a[2], len(c.wire[a[1]]))
                self.step_arrive(a[1], a[2], k)
            elif a[0] == 'eof':
                self.step_eof(a[1], a[2])
        return 'budget'


def clear_caches():
    """Secure-type caches read the runtime (m, t, k) when a type is first made."""
    st = sys.modules.get('mpyc.sectypes')
    if st is not None:
        for name in ('_SecFld', '_SecInt', '_SecFxp', '_SecFlt'):
            f = getattr(st, name, None)
            if f is not None and hasattr(f, 'cache_clear'):
                f.cache_clear()
    sg = sys.modules.get('mpyc.secgroups')
    if sg is not None:
        sg.SecGrp.cache_clear()


# ---- schedulers ----------------------------------------------------------------------------

class RandomScheduler:
    """Uniform choice among enabled actions; chunk sizes from a mix of distributions."""

    def __init__(self, seed, chunk_mode='mixed'):
        self.r = random.Random(seed)
        self.chunk_mode = chunk_mode

    def pick(self, world, acts):
        return self.r.choice(acts)

    def chunk(self, world, src, dst, avail):
        mode = self.chunk_mode
        if mode == 'mixed':
            mode = self.r.choice(('all', 'byte', 'rand', 'rand', 'hdr'))
        if mode == 'all':
            return avail
        if mode == 'byte':
            return 1
        if mode == 'hdr':
            return min(avail, self.r.choice((2, 11, 12, 13)))
        return self.r.randint(1, avail)


class PriorityScheduler:
    """Strict priority order over parties (runs before deliveries or after), with a fairness bound:
    an action chosen `bound` times in a row while others are enabled yields to the next one."""

    def __init__(self, order, lazy_delivery=False, chunk_mode='all', bound=30, seed=0):
        self.order = list(order)
        self.lazy = lazy_delivery
        self.chunk_mode = chunk_mode
        self.bound = bound
        self.last = None
        self.count = 0
        self.r = random.Random(seed)

    def _key(self, a):
        party = a[1] if a[0] == 'run' else (a[1][1] if a[0] == 'accept' else a[2])
        rank = self.order.index(party) if party in self.order else len(self.order)
        is_net = a[0] != 'run'
        return ((is_net == self.lazy), rank, a[0], str(a[1:]))

    def pick(self, world, acts):
        acts = sorted(acts, key=self._key)
        a = acts[0]
        if a == self.last:
            self.count += 1
            if self.count >= self.bound and len(acts) > 1:
                a = acts[1 + self.r.randrange(len(acts) - 1)]
                self.count = 0
        else:
            self.count = 0
        self.last = a
        return a

    def chunk(self, world, src, dst, avail):
        if self.chunk_mode == 'byte':
            return 1
        if self.chunk_mode == 'hdr':
            return min(avail, 12)
        return avail


class ReplayScheduler:
    """Replays a recorded list of actions, then falls back to a seeded random scheduler."""

    def __init__(self, actions, seed=0):
        self.actions = [tuple(a) for a in actions if a[0] != 'crash']
        self.pos = 0
        self.fallback = RandomScheduler(seed)

    def pick(self, world, acts):
        while self.pos < len(self.actions):
            a = self.actions[self.pos]
            self.pos += 1
            key = a[:3] if a[0] == 'arrive' else a
            for b in acts:
                if tuple(b) == tuple(key):
                    return a
        return self.fallback.pick(world, acts)

    def chunk(self, world, src, dst, avail):
        return self.fallback.chunk(world, src, dst, avail)


def run_world(main, m, t=None, seed=0, scheduler=None, max_steps=400000, args=(), observers=(), **kw):
    """Convenience: build a world, run main on all parties under the scheduler, return (status, world)."""
    w = World(m, t, seed=seed, **kw)
    w.observers.extend(observers)
    try:
        w.spawn(main, *args)
        status = w.run(scheduler or RandomScheduler(seed), max_steps=max_steps)
    finally:
        w.close()
    return status, w
