"""C28: secure groups on simulated party worlds -> events for Groups.tla (shared by the in-process run and the NumPy child)."""
import itertools
import math
import random
import sys

UNKNOWN = 999999
BLANK = {'kind': '', 'fam': '', 'coord': '', 'op': '', 'e1': 0, 'e2': 0, 'n': 0, 'res': 0, 'order': 0, 'valid': True,
         'a': [], 'b': [], 'ab': [], 'inva': [], 'pow': [], 'eq': 0, 'm': 0, 'dec': 0, 'p': 0, 'q': 0, 'l': '', 'r': ''}


def fg():
    return sys.modules['mpyc.fingroups']


def make_group(spec):
    kind = spec[0]
    f = fg()
    if kind == 'S':
        return f.SymmetricGroup(spec[1])
    if kind == 'QR':
        return f.QuadraticResidues(**spec[1])
    if kind == 'SG':
        return f.SchnorrGroup(**spec[1])
    if kind == 'EC':
        return f.EllipticCurve(spec[1], spec[2])
    if kind == 'HC':
        return f.HyperellipticCurve(**spec[1])
    if kind == 'Cl':
        return f.ClassGroup(**spec[1])
    raise ValueError(spec)


def famname(spec):
    if spec[0] == 'S':
        return f'S{spec[1]}', ''
    if spec[0] == 'EC':
        return f'EC-{spec[1]}', spec[2]
    return spec[0] + '-' + ','.join(f'{k}{v}' for k, v in sorted(spec[1].items())), ''


def keyof(pt):
    if hasattr(pt, 'normalize'):
        try:
            pt = pt.normalize()
        except NotImplementedError:
            pass
    v = pt.value
    if isinstance(v, (tuple, list)):
        return str(tuple(repr(c) for c in v))
    return repr(v)


def is_prime(n):
    return n > 1 and all(n % d for d in range(2, math.isqrt(n) + 1)) if n < 10**6 else sys.modules['mpyc.gmpy'].is_prime(n)


def perm_order(p):
    n, seen, o = len(p), set(), 1
    for i in range(n):
        if i not in seen:
            j, c = i, 0
            while j not in seen:
                seen.add(j)
                j = p[j]
                c += 1
            o = o * c // math.gcd(o, c)
    return o


KUMMER = ['HC', {'curvename': 'kummer1271'}]


def exceptional(c):
    """kummer1271 (Costello-Lauter formulas): cases with an operand or result that is not of full degree, or a doubling
    through the addition formula"""
    if c['spec'] != KUMMER or 'e1' not in c:
        return False
    e1, e2 = c['e1'], c['e2']
    return {'op': e1 == e2 or e1 == -e2 or 0 in (e1, e2), 'rsub': e1 == e2 or e1 == -e2 or 0 in (e1, e2),
            'double': e1 == 0, 'inv': e1 == 0, 'repeat': c['variant'].endswith('sec_base') or e1 == 0 or c['n'] == 0}.get(c['op'], False)


def gen_cases(spec, rnd, quick, E=5):
    """cases for one family"""
    cases = []
    fam, coord = famname(spec)
    G = make_group(spec)
    if spec[0] == 'S':
        n = spec[1]
        perms = list(itertools.permutations(range(n)))
        pairs = list(itertools.product(perms, perms))
        pairs = rnd.sample(pairs, min(len(pairs), 14 if quick else 50))
        for a, b in pairs:
            k = rnd.randint(-3, 5)
            cases.append({'spec': spec, 'op': 'sym', 'a': list(a), 'b': list(b), 'n': k, 'variant': rnd.choice(['ss', 'sp', 'ps']),
                          'how': rnd.choice(['conv', 'input'])})
            o = perm_order(a)
            if is_prime(o):
                cases.append({'spec': spec, 'op': 'symrep', 'a': list(a), 'b': list(b), 'n': rnd.randrange(o), 'ord': o,
                              'variant': rnd.choice(['pub_base', 'sec_base', 'public']), 'how': 'conv'})
        return cases
    order = G.order
    prime_order = order is not None and is_prime(order)
    lim = E if order is None or order > 2 * E else (order - 1) // 2
    rng = range(-lim, lim + 1)

    def add(op, **kw):
        cases.append(dict({'spec': spec, 'op': op, 'e1': 0, 'e2': 0, 'n': 0, 'variant': '', 'how': rnd.choice(['conv', 'input'])}, **kw))
    pairs = [(a, b) for a in rng for b in rng]
    for (a, b) in rnd.sample(pairs, min(len(pairs), 6 if quick else 14)):
        add('op', e1=a, e2=b, variant=rnd.choice(['ss', 'sp', 'ps', 'alias']))
        add('eq', e1=a, e2=rnd.choice([a, b]), variant=rnd.choice(['ss', 'sp', 'ne']))
        add('ifelse', e1=a, e2=b, n=rnd.randint(0, 1), variant=rnd.choice(['ss', 'sp', 'ps', 'pp']))
    for a in rnd.sample(list(rng), min(len(rng), 4 if quick else 7)):
        add('double', e1=a)
        add('inv', e1=a, variant=rnd.choice(['inv', 'alias', 'inverse']))
        add('rsub', e1=a, e2=rnd.choice(list(rng)))
        add('repeat', e1=a, n=rnd.randint(-6, 9), variant=rnd.choice(['pub_exp', 'pub_exp_alias']))
        if prime_order:
            x = rnd.randrange(order) if order < 50 else rnd.choice([rnd.randrange(12), rnd.randrange(order)])
            for v in ('fld_pub_base', 'fld_public'):
                add('repeat', e1=a, n=x, variant=v)
            if order < 2 ** 70 or (not quick and rnd.random() < 0.1):
                # (hundreds of secure group operations for 250..450-bit orders: generous virtual timeout)
                add('repeat', e1=a, n=rnd.randrange(min(order, 12)), variant='fld_sec_base', **({'timeout': 400.0} if (spec[0] == 'Cl' or order >= 2 ** 70) else {}))
            add('repeat', e1=a, n=-rnd.randrange(1, 5), variant='fld_pub_base_neg')
        if spec[0] == 'Cl':
            if G.bit_length <= 8:        # (secret base and secret exponent: minutes per case for larger discriminants)
                add('repeat', e1=a, n=rnd.randint(0, 6), variant='int_sec_base', timeout=90.0)
            add('repeat', e1=a, n=rnd.randint(-4, 6), variant='int_pub_base')
            add('repeat', e1=a, n=rnd.randint(-4, 6), variant='int_public')
    if spec == KUMMER:
        # the Costello-Lauter formulas cover operands and results of full degree only (known finding): such a case never
        # completes (secure reciprocal of zero retries for ever), which is expensive to simulate; keep one witness
        exc = [c for c in cases if exceptional(c)]
        cases = [c for c in cases if not exceptional(c)] + [dict(c, timeout=0.3, isolate=True) for c in exc if c['op'] == 'op'][:1]
    if hasattr(G, 'encode') and spec[0] != 'HC' and not (spec[0] == 'EC' and 'twist' in spec[1]):
        for msg in ([0, 3, 9] if quick else [0, 1, 3, 9, 14]):
            if spec[0] == 'Cl' and not (msg + 1) * G.gap <= math.isqrt(-G.discriminant) / 2:
                continue
            if spec[0] in ('EC', 'QR') and not (msg + 1) * G.gap < G.field.characteristic:
                continue
            if spec[0] == 'SG' and msg >= min(15, G.order):
                continue
            add('codec', n=msg)
    return cases


class Table:
    def __init__(self, spec, E=60):
        self.G = G = make_group(spec)
        self.order = G.order if (G.order is not None and G.order < 4000) else 0
        if self.order:
            E = max(E, self.order // 2 + 1)       # the whole group
        g = G.generator
        self.t = {0: G.identity}
        for e in range(1, E + 1):
            self.t[e] = self.t[e - 1] @ g
            self.t[-e] = ~self.t[e]
        self.lookup = {}
        for e in sorted(self.t, key=abs):
            self.lookup.setdefault(keyof(self.t[e]), e)

    def elem(self, e):
        return self.t[e]

    def expo(self, key):
        e = self.lookup.get(key, UNKNOWN)
        return e % self.order if self.order and e != UNKNOWN else e


_tables = {}


def table(spec):
    k = str(spec)
    if k not in _tables:
        _tables[k] = Table(spec)
    return _tables[k]


async def evaluator(mpc, c, idx, arg):
    spec = c['spec']
    G = make_group(spec)
    secgrp = mpc.SecGrp(G)
    m = len(mpc.parties)

    def sec(x, k=0):
        if c['how'] == 'input':
            return mpc.input(secgrp(x), senders=(idx + k) % m)
        return secgrp(x)

    async def out(x):
        if isinstance(x, G):
            return keyof(x)
        r = await mpc.output(x)
        return keyof(r)
    op, v = c['op'], c['variant']
    if op == 'sym':
        A, B = G(tuple(c['a'])), G(tuple(c['b']))
        sa, sb = sec(A), sec(B, 1)
        ab = {'ss': lambda: sa @ sb, 'sp': lambda: sa @ B, 'ps': lambda: A @ sb}[v]()
        r_ab = await mpc.output(ab)
        r_inv = await mpc.output(~sa)
        r_pow = await mpc.output(sa ^ c['n'])
        eq = await mpc.output(sa == (sb if v != 'sp' else B))
        return {'ab': list(r_ab.value), 'inva': list(r_inv.value), 'pow': list(r_pow.value), 'eq': int(eq)}
    if op == 'symrep':
        A = G(tuple(c['a']))
        # (exponent fields of order <= m would be lifted to an extension field: to_bits is not available there, see C04)
        secnum = mpc.SecFld(c['ord']) if (c['ord'] > m or v != 'sec_base') else mpc.SecInt(8)
        x = mpc.input(secnum(c['n']), senders=idx % m)
        if v == 'pub_base':
            r = await mpc.output(secgrp.repeat(A, x))
        elif v == 'sec_base':
            r = await mpc.output(secgrp.repeat(sec(A), x))
        else:
            r = await secgrp.repeat_public(A, x)
        return {'pow': list(r.value)}
    T = table(spec)
    add, mul = G.is_additive, G.is_multiplicative
    if op == 'codec':
        M, Z = G.encode(c['n'])
        d = await mpc.output(secgrp.decode(sec(M), sec(Z, 1)))
        return {'dec': int(d)}
    a, b = T.elem(c['e1']), T.elem(c['e2'])
    if op == 'op':
        if v == 'ss':
            r = sec(a) @ sec(b, 1)
        elif v == 'sp':
            r = sec(a) @ b
        elif v == 'ps':
            r = a @ sec(b, 1)
        elif add:
            r = sec(a) + sec(b, 1)
        elif mul:
            r = sec(a) * sec(b, 1)
        else:
            r = sec(a) @ sec(b, 1)
        return {'key': await out(r)}
    if op == 'double':
        x = sec(a)
        return {'key': await out(x @ x)}
    if op == 'inv':
        x = sec(a)
        if v == 'alias' and add:
            r = -x
        elif v == 'alias' and mul:
            r = 1 / x
        elif v == 'inverse':
            r = x.inverse()
        else:
            r = ~x
        return {'key': await out(r)}
    if op == 'rsub':       # a @ ~[b] through the reflected operators
        x = sec(b)
        r = (a - x) if add else ((a / x) if mul else a @ ~x)
        return {'key': await out(r)}
    if op == 'eq':
        x = sec(a)
        if v == 'ss':
            r = x == sec(b, 1)
        elif v == 'sp':
            r = x == b
        else:
            r = 1 - (x != sec(b, 1))
        return {'bit': int(await mpc.output(r))}
    if op == 'ifelse':
        cbit = mpc.input(secgrp.sectype(c['n']), senders=idx % m)
        x = sec(a) if v[0] == 's' else a
        y = sec(b, 1) if v[1] == 's' else b
        return {'key': await out(secgrp.if_else(cbit, x, y))}
    if op == 'repeat':
        n = c['n']
        if v == 'pub_exp':
            r = sec(a) ^ n
        elif v == 'pub_exp_alias':
            x = sec(a)
            r = (n * x) if add else ((x ** n) if mul else x ^ n)
        else:
            if v.startswith('fld'):
                # (exponent fields of order <= m would be lifted to an extension field: no to_bits there, see C04)
                secnum = mpc.SecFld(modulus=G.order) if (G.order > m or not v.endswith('sec_base')) else mpc.SecInt(8)
                x = mpc.input(secnum(abs(n)), senders=idx % m)
                if n < 0:
                    x = -x
            else:
                secnum = secgrp.sectype
                x = mpc.input(secnum(n), senders=idx % m)
            if v.endswith('public'):
                r = await secgrp.repeat_public(a, x)
            elif v.endswith('sec_base'):
                r = secgrp.repeat(sec(a), x)
            else:
                r = secgrp.repeat(a, x)
        return {'key': await out(r)}
    raise ValueError(op)


def to_events(cases, results, m, ctx, prop, tag):
    """-> events for Groups.tla; results[p][i]"""
    evs = []
    for i, c in enumerate(cases):
        rs = [results[p][i] for p in range(m)]
        fam, coord = famname(c['spec'])
        if any('exc' in r for r in rs):
            exc = '' if c['spec'] != KUMMER else (':exceptional' if exceptional(c) else ':generic')
            ctx.violation(f'{prop}:{fam}:{coord}:{c["op"]}:{c["variant"]}:raises{exc}', {'case': c, 'config': tag, 'result': rs[0]})
            continue
        if any(r != rs[0] for r in rs):
            ctx.violation(f'{prop}:{fam}:{coord}:{c["op"]}:{c["variant"]}:parties-disagree', {'case': c, 'config': tag, 'result': rs})
            continue
        r = rs[0]
        opname = c['op'] + (':' + c['variant'] if c['variant'] else '')
        if c['op'] == 'sym':
            # (the spec's pow uses the public exponent n)
            evs.append(dict(BLANK, kind='sym', fam=fam, op=opname, a=c['a'], b=c['b'] if c['variant'] != 'x' else c['b'], n=c['n'], **r))
        elif c['op'] == 'symrep':
            evs.append(dict(BLANK, kind='sympow', fam=fam, op=opname, a=c['a'], n=c['n'], **r))
        elif c['op'] == 'codec':
            evs.append(dict(BLANK, kind='codec', fam=fam, coord=coord, op=opname, m=c['n'], dec=r['dec']))
        else:
            T = table(c['spec'])
            if c['op'] == 'repeat' and abs(c['n']) > 1000:
                # exponents beyond TLC's integers: the opened element must be the plain a^n (whose laws are C27's)
                evs.append(dict(BLANK, kind='law', fam=fam, coord=coord, op=opname, e1=c['e1'], l=r['key'], r=keyof(T.elem(c['e1']) ^ c['n'])))
                continue
            base = dict(BLANK, kind='cyc', fam=fam, coord=coord, order=T.order, e1=c['e1'], e2=c['e2'], n=c['n'])
            if c['op'] == 'eq':
                evs.append(dict(base, op='eq', res=r['bit']))
            else:
                specop = {'op': 'op', 'double': 'double', 'inv': 'inv', 'ifelse': 'ifelse', 'repeat': 'repeat', 'rsub': 'rsub'}[c['op']]
                evs.append(dict(base, op=specop, res=T.expo(r['key'])))
            evs[-1]['coord'] = evs[-1]['coord']
            evs[-1]['q'] = int(exceptional(c))
            evs[-1]['l'] = opname      # variant, for the violation key
    return evs
