"""C19  Parties outside the receivers learn nothing from an output.

1. TLC: ShareProto.OnlyReceiversHear (every receiver subset, thresholds t..2t: output shares go only to
   receivers and only from their th predecessors), Routing design (transfer sends along the arcs only).
2. code -> spec: for every receiver subset (m <= 4; sampled for larger m), thresholds t..2t, secure integers,
   fixed-point numbers, field elements, group elements and secure floats, and for transfers along every
   kind of graph, the same program is run with and without the operation between two synchronisation points:
   (a) every frame written inside the operation window is attributed to its sending function and checked by TLC
   (RoutingTrace.HearOK): destination is a receiver and the sender one of its th predecessors (numbers, field and
   group elements), an arc of the graph (transfer), or -- secure floats to a subset -- non-receivers only get
   dealing messages of input/resharing; (b) QuietOK: parties outside the receivers receive not a single extra byte
   compared with the run without the operation.
"""
import random

from .. import tlc
from ..routing import specs, run_spec
from . import c07


def classify(ev, inv):
    return f'C19:{ev["kind"]}:{inv}'


def run(ctx):
    rnd = random.Random(ctx.seed)
    wd = tlc.make_workdir()
    try:
        from .c11 import model
        model(ctx, wd, 'GF(5)', 3, 1, 'SB1')
        if not ctx.quick:
            model(ctx, wd, 'GF(5)', 4, 1, 'SB1')
        evs = []
        for (m, t) in c07.world_cfgs(ctx):
            sp = [s for s in specs(m, t, rnd, ctx.quick) if s['kind'] in ('output', 'transfer')]
            import itertools
            subsets = [list(s) for r in range(1, m + 1) for s in itertools.combinations(range(m), r)]
            if len(subsets) > 12:
                subsets = rnd.sample(subsets, 12)
            for R in subsets:
                for st in ('flt', 'grp'):
                    for th in (None, 2 * t):
                        sp.append({'kind': 'output', 'stype': st, 'receivers': R, 'threshold': th,
                                   'value': rnd.randint(1, 15), 'list': False})
            cap = (120 if ctx.quick else 100000) if m <= 4 else 150
            if len(sp) > cap:
                sp = rnd.sample(sp, cap)
            for k, s in enumerate(sp):
                ev = run_spec(s, m, t, ctx.seed + k, no_prss=(k % 3 == 1))
                ctx.case((m, t, ev['spec']))
                if ev['status'] != 'done' or any(r == [-2] for r in ev['res']):
                    # failures to complete are C07's concern; only count them here
                    ctx.drift.append(f'run did not complete: {ev["spec"]} {ev["errors"]}')
                    ctx.notes['incomplete_runs'] = ctx.notes.get('incomplete_runs', 0) + 1
                evs.append(ev)
        c07.validate(ctx, wd, evs, 'c19', ['HearOK', 'QuietOK'], classify)
        nonrecv = sum(1 for e in evs if e['kind'].startswith('output') and len(e['R']) < e['m'])
        ctx.notes['outputs_with_non_receivers'] = nonrecv
        ctx.notes['float_outputs'] = sum(1 for e in evs if e['kind'] == 'output_flt')
        if nonrecv == 0:
            ctx.machinery('vacuous: no output with a non-receiver')
        for e in [e for e in evs if e['kind'] == 'output_flt'][:2] + evs[:2]:
            ctx.sample({k: e[k] for k in ('kind', 'm', 'spec', 'sent', 'extra')}, cap=5)
        ctx.assumptions += ['a frame is attributed to the operation if its sender wrote it between the start of the '
                            'operation and its own completion of it, with nothing else pending (barrier + sync before)',
                            'dealing messages carry fresh degree-t shares (C13, C14)']
    finally:
        tlc.rm_workdir(wd)
