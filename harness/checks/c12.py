"""C12  Shamir split and recombine are inverse for all fields and thresholds.

1. TLC (ShamirMC): for each configured field and (m, t), every secret and every coefficient tuple: every
   subset of >= t+1 shares recombines to s at 0 and to f(x) at every x; shares have degree <= t; negative
   control TooFewRecombine must be violated for t >= 1.
2. binding: the real random_split is run with secrets.randbelow scripted to every coefficient tuple and the
   real recombine on every subset and every evaluation point (scalar and list forms, field elements and raw
   values, multi-secret lists); TLC (ShamirTrace) checks every recorded result against Split / Lagrange.
   The NumPy variants run in the side venv and are validated against the same specification.
"""
import os

from .. import tlc
from .thresha_common import FIELDS, run_worker, consts, validate_calls, failing_call, have_np


def plan(ctx):
    if ctx.quick:
        return [('GF(5)', 3, 1), ('GF(7)', 3, 1), ('GF(7)', 5, 2), ('GF(2^3)', 4, 1), ('GF(3^2)', 3, 1), ('GF(2^2)', 2, 0)]
    return [('GF(5)', 3, 1), ('GF(5)', 4, 1), ('GF(7)', 2, 0), ('GF(7)', 3, 1), ('GF(7)', 5, 2), ('GF(7)', 6, 2), ('GF(11)', 4, 1), ('GF(11)', 7, 3),
            ('GF(13)', 5, 2), ('GF(2^2)', 2, 0), ('GF(2^2)', 3, 1), ('GF(2^3)', 4, 1), ('GF(2^3)', 5, 2), ('GF(3^2)', 3, 1), ('GF(3^2)', 5, 2)]


def run(ctx, prop='C12', invariants=('Recombines', 'DegreeT'), trace_invs=('SplitOK', 'RecombineOK'), neg=True):
    wd = tlc.make_workdir()
    try:
        for (fname, m, t) in plan(ctx):
            P, D, mod, modint = FIELDS[fname]
            q = P ** D
            tag = f'{fname}-{m}-{t}'.replace('(', '').replace(')', '').replace('^', 'e')
            if q ** (t + 1) <= (3000 if ctx.quick else 5000):
                cfg = os.path.join(wd, f'mc_{tag}.cfg')
                tlc.write_cfg(cfg, constants=consts(fname, m, t), invariants=list(invariants))
                res = tlc.run_tlc('ShamirMC', cfg, workdir=wd, timeout=3000)
                ctx.add_tlc(res, f'ShamirMC[{tag}]')
                if not res.ok:
                    ctx.violation(f'{prop}:model:{res.violation}', {'field': fname, 'm': m, 't': t, 'cex': res.cex[-1:]})
                if neg and t >= 1 and fname in ('GF(5)', 'GF(7)'):
                    tlc.write_cfg(cfg, constants=consts(fname, m, t), invariants=['TooFewRecombine'])
                    r2 = tlc.run_tlc('ShamirMC', cfg, workdir=wd, timeout=600)
                    if r2.ok:
                        ctx.machinery('negative control TooFewRecombine was not violated')
                    ctx.notes['negative_control'] = 'TooFewRecombine violated as required'
            variants = [False] + ([True] if have_np() else [])
            for use_np in variants:
                job = {'what': 'shamir', 'p': P, 'd': D, 'modint': modint, 'm': m, 't': t, 'np': use_np,
                       'seed': ctx.seed, 'budget': 350 if ctx.quick else 900, 'multi': 6 if ctx.quick else 15}
                d, err = run_worker(wd, job, tag + ('np' if use_np else ''))
                if d is None:
                    ctx.violation(f'{prop}:impl-raises:{"np" if use_np else "list"}', {'field': fname, 'm': m, 't': t, 'stderr': err})
                    continue
                calls = d['calls']
                res = validate_calls(ctx, wd, 'MCShamirTrace', calls, fname, m, t, list(trace_invs),
                                     tag + ('np' if use_np else ''))
                ctx.traces += len(calls)
                for c in calls[:: max(1, len(calls) // 300)]:
                    ctx.case((fname, m, t, use_np, c['kind'], str(c['s']), str(c['c']), str(c['pts'])[:60]))
                ctx.evaluations += len(calls)
                if not res.ok:
                    k, call = failing_call(res, calls)
                    ctx.violation(f'{prop}:trace:{res.violation}:{"np" if use_np else "list"}',
                                  {'field': fname, 'm': m, 't': t, 'call_index': k, 'call': call})
                if d['meta']['exhaustive']:
                    ctx.notes.setdefault('exhaustive_configs', []).append(tag + ('np' if use_np else ''))
            ctx.sample({'field': fname, 'm': m, 't': t, 'call': calls[1] if len(calls) > 1 else None}, cap=4)
        if not have_np():
            ctx.notes['numpy'] = 'side venv missing: NumPy variants not exercised in this run'
        ctx.assumptions += ['fields listed in thresha_common.FIELDS; larger fields are not decided by TLC']
    finally:
        tlc.rm_workdir(wd)
