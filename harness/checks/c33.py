"""C33  Secure random functions stay in range and are uniform.

1. TLC (RandomMC over RandomAlg.tla): _randbelow and random_unit_vector are transcribed over an explicit supply of
   random bits (including the restart rule that keeps the unused low bits).  For every n <= 9 and every supply of 9
   bits the outcome is in range and every outcome is produced by exactly the same number of supplies: exact
   uniformity given uniform bits.  Fisher-Yates (shuffle / sample): choice tuples and permutations are in bijection.
2. binding: on a real one-party world runtime.random_bits is scripted with every supply of L bits; the real
   _randbelow / random_unit_vector must return the transcription's result on the same bits and consume the same
   number of bits (RandomTrace.ScriptOK).  With real randomness (PRSS and dealt bits, m in {1,3,4}) randrange, randint,
   getrandbits, choice, choices (also weighted), sample, shuffle, random_permutation, random_derangement,
   random_unit_vector, random and uniform must have the documented shape and range (ShapeOK).
"""
import itertools
import os
import random
import sys

from .. import tlc
from ..secrun import run_batch
from .c01 import validate

BLANK = {'fn': '', 'n': 0, 'a': 0, 'b': 0, 'c': 1, 'pop': [], 'supply': [], 'used': 0, 'res': []}


class Exhausted(Exception):
    pass


async def eval_scripted(mpc, e, idx, state):
    secint = mpc.SecInt(8)
    supply = list(e['supply'])
    state['supply'] = supply
    state['used'] = 0
    state['exhausted'] = False
    try:
        if e['fn'] == 'randbelow':
            r = mpc.random.randrange(secint, e['n'])
            v = [r if isinstance(r, int) else int(await mpc.output(r))]       # randrange(1) is the public int 0
        else:
            u = mpc.random.random_unit_vector(secint, e['n'])
            v = [int(x) for x in await mpc.output(list(u))]
    except Exhausted:
        v = [-1]
    if state['exhausted']:
        v = [-1]
    return [v, state['used']]


async def eval_shape(mpc, e, idx, arg):
    secint = mpc.SecInt(10)
    secfxp = mpc.SecFxp(16, 8)
    rnd = mpc.random
    fn = e['fn']
    pop = e['pop']
    if fn == 'randrange':
        r = [rnd.randrange(secint, e['a'], e['b'], e['c'])]
    elif fn == 'randint':
        r = [rnd.randint(secint, e['a'], e['b'])]
    elif fn == 'getrandbits':
        r = [rnd.getrandbits(secint, e['n'])]
    elif fn == 'choice':
        r = [rnd.choice(secint, pop)]
    elif fn == 'choices':
        kw = {'weights': [1 + (i % 3) for i in range(len(pop))]} if idx % 2 else {}
        r = rnd.choices(secint, pop, k=e['n'], **kw)
    elif fn == 'sample':
        r = rnd.sample(secint, pop if idx % 2 else range(pop[0], pop[-1] + 1), e['n'])
    elif fn == 'shuffle':
        x = [secint(v) for v in pop]
        rnd.shuffle(secint, x)
        r = x
    elif fn == 'random_permutation':
        r = rnd.random_permutation(secint, pop)
    elif fn == 'random_derangement':
        r = rnd.random_derangement(secint, pop)
    elif fn == 'random_unit_vector':
        r = rnd.random_unit_vector(secint, e['n'])
    elif fn == 'random':
        v = await mpc.output(rnd.random(secfxp), raw=True)
        return [int(v)]
    elif fn == 'uniform':
        v = await mpc.output(rnd.uniform(secfxp, e['a'] / 256, e['b'] / 256), raw=True)
        return [int(v)]
    return [v if isinstance(v, int) else int(await mpc.output(v)) for v in r]


def run(ctx):
    rnd = random.Random(ctx.seed)
    from ..sim.world import load_mpyc
    load_mpyc()
    rtmod = sys.modules['mpyc.runtime']
    wd = tlc.make_workdir()
    try:
        cfg = os.path.join(wd, 'rmc.cfg')
        tlc.write_cfg(cfg, constants={'NMAX': 9 if ctx.quick else 12, 'L': 9 if ctx.quick else 11, 'SMAX': 5},
                      invariants=['RandBelowUniform', 'UnitVectorUniform', 'ShuffleBijective'])
        res = tlc.run_tlc('RandomMC', cfg, workdir=wd, timeout=3000)
        ctx.add_tlc(res, 'RandomMC')
        if not res.ok:
            ctx.violation(f'C33:model:{res.violation}', {'cex': res.cex[-1:]})
        # ---- scripted bits on a real one-party world ----
        L = 6 if ctx.quick else 8
        cases = []
        for n in range(1, 9 if ctx.quick else 13):
            for s in itertools.product((0, 1), repeat=L):
                for fn in ('randbelow', 'unit_vector'):
                    if ctx.quick and rnd.random() < 0.5:
                        continue
                    cases.append(dict(BLANK, fn=fn, n=n, supply=list(s)))
        state = {'supply': [], 'used': 0}
        orig = rtmod.Runtime.random_bits

        def scripted(self, sftype, n, signed=False):
            sup = state['supply']
            if len(sup) < n:
                # supply exhausted: flag it and continue with zero bits (zeros never trigger a restart)
                state['exhausted'] = True
                sup.extend([0] * (n - len(sup)))
            bits = sup[:n]
            del sup[:n]
            state['used'] += n
            return [sftype(b) for b in bits]
        rtmod.Runtime.random_bits = scripted
        try:
            st, results, errors = run_batch(cases, eval_scripted, 1, 0, seed=ctx.seed, ctxarg=state, chunk=1, max_steps=5000000)
        finally:
            rtmod.Runtime.random_bits = orig
        if st != 'done' or any(errors):
            ctx.violation('C33:scripted:not-complete', {'status': st, 'errors': sorted({e[0][:90] for e in errors if e})[:3]})
        else:
            evs = []
            for i, e in enumerate(cases):
                r = results[0][i]
                if isinstance(r, dict):
                    ctx.violation(f'C33:{e["fn"]}:raises', {'event': e, 'result': r})
                    continue
                evs.append(dict(e, res=r[0], used=r[1]))
                ctx.case((e['fn'], e['n'], tuple(e['supply'])))
            validate(ctx, wd, evs, 'scripted', module='RandomTrace', invs=('ScriptOK',),
                     keyfn=lambda e, inv: f'C33:{e["fn"]}:{inv}:n={e["n"]}', prop='C33')
            ctx.sample({'scripted': evs[len(evs) // 2]})
        # ---- shapes and ranges with real randomness ----
        cases = []
        for _ in range(6 if ctx.quick else 40):
            a = rnd.randint(-20, 20)
            b = a + rnd.randint(1, 30)
            c = rnd.randint(1, 4)
            cases.append(dict(BLANK, fn='randrange', a=a, b=b, c=c))
            cases.append(dict(BLANK, fn='randint', a=a, b=b))
            cases.append(dict(BLANK, fn='getrandbits', n=rnd.randint(0, 8)))
            n = rnd.randint(1, 6)
            pop = rnd.sample(range(-30, 30), n)
            cases.append(dict(BLANK, fn='choice', pop=pop))
            cases.append(dict(BLANK, fn='choices', pop=pop, n=rnd.randint(0, 4)))
            cases.append(dict(BLANK, fn='sample', pop=sorted(pop) if False else list(range(pop[0], pop[0] + n)), n=rnd.randint(0, n)))
            cases.append(dict(BLANK, fn='shuffle', pop=pop))
            cases.append(dict(BLANK, fn='random_permutation', pop=pop))
            if n >= 2:
                cases.append(dict(BLANK, fn='random_derangement', pop=pop))
            cases.append(dict(BLANK, fn='random_unit_vector', n=n))
            cases.append(dict(BLANK, fn='random', n=8))
            x, y = rnd.randint(-500, 500), rnd.randint(-500, 500)
            if x != y:
                cases.append(dict(BLANK, fn='uniform', a=x, b=y))
        # populations and ranges of a single element (always included: seed-independent edge cases)
        for v in (17, -3, 0):
            cases += [dict(BLANK, fn='randrange', a=v, b=v + 1, c=1), dict(BLANK, fn='randint', a=v, b=v), dict(BLANK, fn='choice', pop=[v]),
                      dict(BLANK, fn='choices', pop=[v], n=2), dict(BLANK, fn='choices', pop=[v], n=1), dict(BLANK, fn='sample', pop=[v], n=1),
                      dict(BLANK, fn='sample', pop=[v], n=0), dict(BLANK, fn='shuffle', pop=[v]), dict(BLANK, fn='random_permutation', pop=[v]),
                      dict(BLANK, fn='uniform', a=v * 16, b=v * 16 + 1), dict(BLANK, fn='uniform', a=v * 16 + 1, b=v * 16)]
        cases += [dict(BLANK, fn='random_unit_vector', n=1), dict(BLANK, fn='getrandbits', n=0)]
        worlds = [(1, 0, False), (3, 1, False), (3, 1, True)] if ctx.quick else [(1, 0, False), (3, 1, False), (3, 1, True), (4, 1, False), (5, 2, True)]
        for (m, t, no_prss) in worlds:
            tag = f'rndm{m}t{t}{"n" if no_prss else "p"}'
            st, results, errors = run_batch(cases, eval_shape, m, t, seed=ctx.seed + m, no_prss=no_prss, chunk=10, max_steps=20000000)
            if st != 'done' or any(errors):
                ctx.violation('C33:run:not-complete', {'config': tag, 'status': st, 'errors': sorted({e[0][:90] for e in errors if e})[:3]})
                continue
            evs = []
            for i, e in enumerate(cases):
                r = [results[p][i] for p in range(m)]
                if any(isinstance(x, dict) for x in r):
                    ctx.violation(f'C33:{e["fn"]}:raises', {'event': e, 'config': tag, 'result': r[0]})
                    continue
                if any(x != r[0] for x in r):
                    ctx.violation(f'C33:{e["fn"]}:parties-disagree', {'event': e, 'config': tag, 'result': r})
                evs.append(dict(e, res=r[0]))
                ctx.case((tag, e['fn'], e['n'], e['a'], e['b'], tuple(e['pop'])))
            validate(ctx, wd, evs, tag, module='RandomTrace', invs=('ShapeOK',), keyfn=lambda e, inv: f'C33:{e["fn"]}:{inv}', prop='C33')
        ctx.sample({'shape': evs[3]})
        ctx.assumptions += ['uniformity is exact GIVEN uniformly random secret bits (random_bits: C11/C15); bits are scripted on a one-party world only']
    finally:
        tlc.rm_workdir(wd)
