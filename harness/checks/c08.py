"""C08  Results and termination do not depend on the schedule.

1. TLC: PCSched for each constant program, all interleavings (M=3; thorough also M=4): LabelAgreement,
   UniqueLabels, ConsumedOnce, Quiet, LevelCount, deadlock-freedom, <>AllDone under weak fairness;
   negative control main_bad must violate LabelAgreement.
2. spec -> code: (a) the labels PCSched predicts for every directed connection (terminal state, symbolic
   pcs evaluated through the real _hop) must equal the labels the real mirrored program uses, under
   many schedules; (b) TLC-simulated behaviours are projected to scheduler action lists (party steps,
   frame deliveries) and replayed in the simulator: completion, same outputs, same labels.
3. code -> spec: program corpus x configurations x schedule families: all parties complete, outputs are
   identical across schedules, every run's event trace is accepted by RtTrace.
"""
import os
import random
import re
import struct
import sys

from .. import tlc
from ..programs import CORPUS, MIRRORS, QUICK
from ..runs import run_recorded, validate_runs, schedulers, corpus_check
from ..sim.world import RandomScheduler, ReplayScheduler

INVS = ['LabelAgreement', 'UniqueLabels', 'ConsumedOnce', 'BarrierSound', 'Quiet', 'LevelCount', 'Terminal']


def unlimb(l):
    return l[0] + (l[1] << 22) + (l[2] << 44) - (1 << 63)


def mc_program(ctx, wd, prog, M, T, fair=True, terminal=True, timeout=1800):
    cfg = os.path.join(wd, f'pcs_{prog}_{M}.cfg')
    invs = [i for i in INVS if terminal or i != 'Terminal']
    tlc.write_cfg(cfg, spec='FairSpec' if fair else 'Spec', deadlock=True,
                  constants={'M': M, 'T': T, 'MainName': f'"{prog}"'}, invariants=invs,
                  properties=['Termination'] if fair else [])
    res = tlc.run_tlc('PCSched', cfg, workdir=wd, timeout=timeout, coverage=False)
    ctx.add_tlc(res, f'PCSched[{prog},M={M},T={T}]')
    return res


def predicted_labels(res, hop):
    """terminal state printed by TLC -> {party: {'s': {peer: set(int)}, 'r': {...}}} using the real _hop"""
    vals = {re.sub(r'\s+', ' ', v) for v in res.printed if '"terminal"' in v[:16]}
    if len(vals) != 1:
        return None, len(vals)
    v = tlc.parse_value(vals.pop())[1]

    def conc(lab):
        path, off = lab
        h, depth = 0, 0
        for k in path:
            h = hop([h + k, depth])
            depth += 1
        return h + off
    out = {}
    for i, rec in v.items():
        out[i] = {'s': {j: {conc(l) for l in labs} for j, labs in rec['s'].items()},
                  'r': {j: {conc(l) for l in labs} for j, labs in rec['r'].items()}}
    return out, 1


def observed_labels(run):
    m = run['m']
    out = {i: {'s': {j: set() for j in range(m)}, 'r': {j: set() for j in range(m)}} for i in range(m)}
    for e in run['events']:
        if e['ev'] == 'send':
            out[e['p']]['s'][e['peer']].add(unlimb(e['pc']))
        elif e['ev'] == 'recv':
            out[e['p']]['r'][e['peer']].add(unlimb(e['pc']))
    return out


def sim_behaviours(ctx, wd, prog, M, T, num, seed):
    """TLC -simulate: list of behaviours, each a list of ('run', i) / ('deliver', j, i)."""
    cfg = os.path.join(wd, f'pcs_sim_{prog}.cfg')
    tlc.write_cfg(cfg, spec='Spec', deadlock=False, constants={'M': M, 'T': T, 'MainName': f'"{prog}"'},
                  invariants=[i for i in INVS if i != 'Terminal'])
    d = os.path.join(wd, f'sim_{prog}')
    os.makedirs(d, exist_ok=True)
    res = tlc.run_tlc('PCSched', cfg, workdir=wd, simulate=f'file={d}/tr,num={num}', depth=400, workers=1,
                      seed=seed, timeout=900)
    ctx.add_tlc(res, f'PCSched-simulate[{prog}]')
    behs = []
    for fn in sorted(os.listdir(d)):
        acts = []
        with open(os.path.join(d, fn)) as f:
            for line in f:
                if line.startswith('\\* <'):
                    mm = re.match(r'\\\* <(\w+)(?:\(([\d,]+)\))? line', line)
                    if not mm or mm.group(1) == 'Init':
                        continue
                    a = tuple(int(x) for x in mm.group(2).split(',')) if mm.group(2) else ()
                    if mm.group(1) == 'PartyNext':
                        acts.append(('run', a[0]))
                    elif mm.group(1) == 'Deliver':
                        acts.append(('deliver', a[0], a[1]))
        behs.append(acts)
        os.unlink(os.path.join(d, fn))
    return behs


class ProjectedScheduler:
    """Follows a PCSched behaviour: PartyNext(i) -> one loop iteration of party i; Deliver(j,i) -> the next
    whole frame (or handshake) of wire j->i.  Model steps that are not enabled in the implementation are
    skipped; connection set-up (not in the model) and leftovers are handled by a seeded random scheduler."""

    def __init__(self, acts, seed):
        self.acts = list(acts)
        self.pos = 0
        self.fb = RandomScheduler(seed, 'all')
        self.frame = None
        self.followed = 0

    def pick(self, world, acts):
        # connection set-up first (accepts / handshakes are not part of the model)
        setup = [a for a in acts if a[0] == 'accept']
        if setup or not all(rt.parties[rt.pid].protocol is not None and
                            (getattr(rt.parties[rt.pid].protocol, 'done', lambda: True)()) for rt in world.rts
                            if hasattr(rt.parties[rt.pid], 'protocol')):
            if world.rts[0].start_time is None or any(rt.start_time is None for rt in world.rts):
                return self.fb.pick(world, acts)
        while self.pos < len(self.acts):
            a = self.acts[self.pos]
            self.pos += 1
            if a[0] == 'run' and ('run', a[1]) in acts:
                self.followed += 1
                return ('run', a[1])
            if a[0] == 'deliver' and ('arrive', a[1], a[2]) in acts:
                self.followed += 1
                return ('arrive', a[1], a[2])
        return self.fb.pick(world, acts)

    def chunk(self, world, src, dst, avail):
        c = world.net.conns[(min(src, dst), max(src, dst))]
        w = bytes(c.wire[src])
        if len(w) >= 12:
            size = struct.unpack_from('<I', w, 8)[0]
            # handshake bytes are delivered during set-up by the fallback scheduler (whole wire)
            if 12 + size <= len(w) and c.arrived[src] > 0 or src > dst:
                return 12 + size
        return avail


def run(ctx):
    rnd = random.Random(ctx.seed)
    wd = tlc.make_workdir()
    asyncoro = None
    try:
        # ---- 1. model checking --------------------------------------------------------------
        progs = ['main_out', 'main_mul2', 'main_noawait'] if ctx.quick else \
            ['main_out', 'main_mul2', 'main_noawait', 'main_await', 'main_prss', 'main_conv']
        results = {}
        for p in progs:
            big = p in ('main_await', 'main_conv', 'main_prss')
            res = mc_program(ctx, wd, p, 3, 1, fair=not big)
            results[p] = res
            if not res.ok:
                ctx.violation(f'C08:model:{p}:{res.violation}', {'program': p, 'cex_tail': res.cex[-2:]})
        if not ctx.quick:
            res = mc_program(ctx, wd, 'main_out', 4, 1, fair=False, terminal=False, timeout=1500)
            if not res.ok:
                ctx.violation(f'C08:model:main_out@4:{res.violation}', {'cex_tail': res.cex[-2:]})
        neg = mc_program(ctx, wd, 'main_bad', 3, 1, fair=False, terminal=False)
        if neg.ok or neg.violation != 'LabelAgreement':
            ctx.machinery(f'negative control main_bad did not violate LabelAgreement ({neg.violation})')
        ctx.notes['negative_control'] = 'main_bad violates LabelAgreement as required'

        # ---- 2. spec -> code ------------------------------------------------------------------
        from ..sim.world import load_mpyc
        load_mpyc()
        asyncoro = sys.modules['mpyc.asyncoro']
        nsched = 12 if ctx.quick else 30
        for p in progs:
            if p not in MIRRORS or not results[p].ok:
                continue
            pred, nterm = predicted_labels(results[p], asyncoro._hop)
            if pred is None:
                ctx.violation(f'C08:model:{p}:terminal-state-not-unique', {'distinct_terminal_states': nterm})
                continue
            behs = sim_behaviours(ctx, wd, p, 3, 1, 6 if ctx.quick else 15, ctx.seed + 1)
            outs = set()
            scheds = [('random', lambda s=s: RandomScheduler(ctx.seed * 1000 + s)) for s in range(nsched)]
            scheds += schedulers(3, ctx.seed, ctx.quick)
            scheds += [(f'tlc-behaviour-{k}', (lambda b=b, k=k: ProjectedScheduler(b, ctx.seed + k)))
                       for k, b in enumerate(behs)]
            for name, mk in scheds:
                for no_prss in (False, True):
                    sch = mk()
                    r = run_recorded(MIRRORS[p], 0, 3, 1, seed=ctx.seed, scheduler=sch, no_prss=no_prss)
                    ctx.case((p, name, no_prss))
                    ctx.traces += 1
                    if not r['complete']:
                        if ctx.violation(f'C08:replay:{p}:not-complete', {
                                'program': p, 'schedule': name, 'status': r['status'], 'errors': r['errors'],
                                'no_prss': no_prss, 'trace_len': len(r['world'].trace)}):
                            break
                        continue
                    obs = observed_labels(r)
                    if obs != pred:
                        diff = {i: {k: {j: sorted(obs[i][k][j] ^ pred[i][k][j]) for j in obs[i][k]
                                        if obs[i][k][j] != pred[i][k][j]} for k in ('s', 'r')} for i in obs}
                        if ctx.violation(f'C08:replay:{p}:labels-differ-from-model', {
                                'program': p, 'schedule': name, 'no_prss': no_prss, 'diff': diff}):
                            break
                    outs.add(repr(r['results']))
                    if name.startswith('tlc-behaviour') and hasattr(sch, 'followed'):
                        ctx.notes.setdefault('projected_steps_followed', []).append(sch.followed)
            if len(outs) > 1:
                ctx.violation(f'C08:replay:{p}:outputs-depend-on-schedule', {'program': p, 'outputs': sorted(outs)})
            ctx.sample({'mirror': p, 'predicted_labels_party0_to_1': sorted(pred[0]['s'][1])[:4],
                        'schedules': len(scheds) * 2})

        # ---- 3. code -> spec ------------------------------------------------------------------
        names = QUICK if ctx.quick else list(CORPUS)
        cfgs = [(3, 1), (2, 0), (4, 1)] if ctx.quick else [(2, 0), (3, 1), (4, 1), (5, 2)]
        corpus_check(ctx, 'C08', names, cfgs, nrand=3 if ctx.quick else 5,
                     budget_events=250000 if ctx.quick else 400000)
        ctx.assumptions += ['_hop collisions do not occur (observed ones would be reported)',
                            'schedules are fair: every enabled action is eventually taken (finite delays)',
                            'PCSched steps any runnable task (superset of asyncio FIFO order)']
    finally:
        tlc.rm_workdir(wd)
