"""C34  Secure statistics agree with Python's statistics module.

TLC (Stats.tla): integer mean / variance / stdev / pvariance / pstdev / covariance with the documented rounding,
medians, quantiles (both methods), mode (first encountered) by definition; Python's own statistics module is
cross-checked against the same definitions (OracleOK).  All data sets of size <= 4 over -3..3 (sampled in the quick
tier), duplicates included, go through the real mpyc.statistics functions on party worlds; each data set is run
under several world seeds (the result must not depend on quickselect's pivots).  Fixed-point data: every result
must lie within a stated number of units of an enclosure of Python's exact result (correlation and
linear_regression included).
"""
import itertools
import math
import random
import statistics
from fractions import Fraction

from .. import tlc
from ..secrun import run_batch
from .c01 import validate

BLANK = {'kind': 'int', 'fn': '', 'x': [], 'y': [], 'n': 0, 'incl': False, 'num': 0, 'den': 1, 'res': [], 'lo': [], 'hi': [], 'tol': 0, 'f': 0}
INT_FNS = ['mean', 'median', 'median_low', 'median_high', 'mode', 'variance', 'pvariance', 'stdev', 'pstdev']


def oracle(fn, x, y=None):
    fx = [Fraction(v) for v in x]
    if fn == 'mean':
        return statistics.mean(fx)
    if fn == 'variance':
        return statistics.variance(fx)
    if fn == 'pvariance':
        return statistics.pvariance(fx)
    if fn == 'covariance':
        return Fraction(statistics.covariance([float(v) for v in x], [float(v) for v in y])).limit_denominator(10 ** 6)
    return Fraction(0)


def gen_int_cases(rnd, quick):
    cases = []
    sets = [list(t) for n in range(1, 5) for t in itertools.product(range(-3, 4), repeat=n)]
    chosen = rnd.sample(sets, 45) if quick else sets
    chosen += [[3, 3, 1, 1], [1, 1, 3, 3], [2, -1, -1, 2], [0, 0, 0], [3], [-3, 3]]
    for x in chosen:
        for fn in INT_FNS:
            if fn in ('variance', 'stdev') and len(x) < 2:
                continue
            if quick and fn in ('stdev', 'pstdev', 'median_high') and rnd.random() < 0.6:
                continue
            o = oracle(fn, x)
            cases.append(dict(BLANK, fn=fn, x=x, num=o.numerator, den=o.denominator))
        if len(x) >= 2:
            for n in (2, 3, 4, 5):
                for incl in (False, True):
                    if quick and rnd.random() < 0.7:
                        continue
                    cases.append(dict(BLANK, fn='quantiles', x=x, n=n, incl=incl))
            y = [rnd.randint(-3, 3) for _ in x]
            o = oracle('covariance', x, y)
            cases.append(dict(BLANK, fn='covariance', x=x, y=y, num=o.numerator, den=o.denominator))
    # mode over a wide range of values (unique mode): the histogram width depends on max - min
    for _ in range(4 if quick else 30):
        lo = rnd.randint(-60, 20)
        vals = rnd.sample(range(lo, lo + rnd.choice([5, 33, 40, 70])), 4)
        x = vals + [vals[rnd.randrange(4)]]
        rnd.shuffle(x)
        cases.append(dict(BLANK, fn='mode', x=x))
    return cases


def gen_fxp_cases(rnd, quick, f):
    s = 1 << f
    cases = []
    for _ in range(10 if quick else 120):
        n = rnd.randint(2, 5)
        x = [rnd.randint(-3 * 4, 3 * 4) * (s // 4) for _ in range(n)]       # multiples of 1/4
        y = [rnd.randint(-3 * 4, 3 * 4) * (s // 4) for _ in range(n)]
        xf = [v / s for v in x]
        yf = [v / s for v in y]

        def enc(vals, tol):
            return {'lo': [math.floor(v * s - 1e-6) for v in vals], 'hi': [math.ceil(v * s + 1e-6) for v in vals], 'tol': tol}
        units = 4 + 2 * n
        cases.append(dict(BLANK, kind='fxp', fn='mean', x=x, f=f, **enc([statistics.mean(xf)], units)))
        cases.append(dict(BLANK, kind='fxp', fn='median', x=x, f=f, **enc([statistics.median(xf)], 2)))
        cases.append(dict(BLANK, kind='fxp', fn='variance', x=x, f=f, **enc([statistics.variance(xf)], 40 * n)))
        cases.append(dict(BLANK, kind='fxp', fn='pstdev', x=x, f=f, **enc([statistics.pstdev(xf)], 40 * n)))
        cases.append(dict(BLANK, kind='fxp', fn='covariance', x=x, y=y, f=f, **enc([statistics.covariance(xf, yf)], 40 * n)))
        cases.append(dict(BLANK, kind='fxp', fn='quantiles', x=x, n=4, incl=True, f=f,
                          **enc(statistics.quantiles(xf, n=4, method='inclusive'), 24)))
        # mode of fixed-point data (unique mode; ranges below and above 32): exact
        lo_ = rnd.randint(-40, 10)
        mv = rnd.sample(range(lo_, lo_ + rnd.choice([6, 34, 48])), 4)
        mx = mv + [mv[rnd.randrange(4)]]
        rnd.shuffle(mx)
        cases.append(dict(BLANK, kind='fxp', fn='mode', x=[v * s for v in mx], f=f, **enc([float(statistics.mode(mx))], 0)))
        if len(set(xf)) > 1 and len(set(yf)) > 1:
            cases.append(dict(BLANK, kind='fxp', fn='correlation', x=x, y=y, f=f,
                              **enc([statistics.correlation(xf, yf)], s // 8)))
            lr = statistics.linear_regression(xf, yf)
            if abs(lr.slope) < 8 and abs(lr.intercept) < 20:
                cases.append(dict(BLANK, kind='fxp', fn='linear_regression', x=x, y=y, f=f,
                                  **enc([lr.slope, lr.intercept], s // 4)))
    return cases


async def evaluate(mpc, e, idx, arg):
    m = len(mpc.parties)
    st = mpc.statistics
    if e['kind'] == 'int':
        T = mpc.SecInt(12)
        conv = lambda v: T(v)
        back = int
    else:
        T = mpc.SecFxp(16, e['f'])
        s = 1 << e['f']
        conv = lambda v: T(v / s)
        back = lambda v: int(round(float(v) * s))
    x = [mpc.input(conv(v), senders=(idx + k) % m) for k, v in enumerate(e['x'])]
    y = [mpc.input(conv(v), senders=(idx + k + 1) % m) for k, v in enumerate(e['y'])]
    fn = e['fn']
    if fn == 'quantiles':
        r = st.quantiles(x, n=e['n'], method='inclusive' if e['incl'] else 'exclusive')
    elif fn in ('covariance', 'correlation'):
        r = [getattr(st, fn)(x, y)]
    elif fn == 'linear_regression':
        lr = st.linear_regression(x, y)
        r = [lr.slope, lr.intercept]
    else:
        r = [getattr(st, fn)(x)]
    return [back(v) for v in await mpc.output(list(r))]


def run(ctx):
    rnd = random.Random(ctx.seed)
    wd = tlc.make_workdir()
    try:
        cases = gen_int_cases(rnd, ctx.quick) + gen_fxp_cases(rnd, ctx.quick, 8)
        worlds = [(1, 0, False, 1.0, 0), (1, 0, False, 0.3, 7), (3, 1, False, 0.12, 0)] if ctx.quick else \
            [(1, 0, False, 1.0, 0), (1, 0, False, 0.2, 7), (1, 0, False, 0.2, 13), (3, 1, False, 0.1, 0), (3, 1, True, 0.05, 3)]
        for (m, t, no_prss, frac, sd) in worlds:
            sub = cases if frac >= 1 else [c for c in cases if rnd.random() < frac]
            tag = f'statm{m}t{t}{"n" if no_prss else "p"}s{sd}'
            st, results, errors = run_batch(sub, evaluate, m, t, seed=ctx.seed + sd, no_prss=no_prss, chunk=12, max_steps=20000000)
            if st != 'done' or any(errors):
                ctx.violation('C34:run:not-complete', {'config': tag, 'status': st, 'errors': sorted({e[0][:90] for e in errors if e})[:3]})
                continue
            evs = []
            for i, e in enumerate(sub):
                r = [results[p][i] for p in range(m)]
                if any(isinstance(x, dict) for x in r):
                    ctx.violation(f'C34:{e["fn"]}:{e["kind"]}:raises', {'event': e, 'config': tag, 'result': r[0]})
                    continue
                evs.append(dict(e, res=r))
                ctx.case((e['kind'], e['fn'], tuple(e['x']), tuple(e['y']), e['n'], e['incl'], sd))

            def keyfn(e, inv):
                key = f'C34:{e["fn"]}:{e["kind"]}:{inv}'
                if e['fn'] == 'mode':
                    key += ':tie' if len({v: e['x'].count(v) for v in e['x'] if e['x'].count(v) == max(e['x'].count(w) for w in e['x'])}) > 1 else ':unique'
                return key
            validate(ctx, wd, evs, tag, module='Stats', invs=('IntStatOK', 'OracleOK', 'FxpStatOK'), keyfn=keyfn, prop='C34')
        ctx.sample({'event': evs[0]})
        ctx.sample({'event': next(e for e in evs if e['kind'] == 'fxp')})
        ctx.assumptions += ['fixed-point results: tolerance of 4+2n .. 40n units of 2^-8 around Python\'s float result (stated per function in the events); '
                            'correlation / regression 1/8 resp. 1/4 absolute', 'data sets of size <= 5 over a small range']
    finally:
        tlc.rm_workdir(wd)
