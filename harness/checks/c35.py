"""C35  Barriers and shutdown wait for all started MPyC coroutines.

1. TLC: PCSched BarrierSound (main finished => every coroutine reconciled), LevelCount (_pc_level = number of
   unreconciled coroutines), deadlock-freedom and <>AllDone for programs with pending pipelines, with and
   without awaiting their results before shutdown.
2. code -> spec: programs with deep pending pipelines and barriers, all schedule families, m <= 5, validated by
   RtTrace: a depth-0 barrier returns only when every coroutine started before it is reconciled, _pc_level equals
   the number of open coroutines at barrier entry/exit, no connection is closed while a coroutine is open, every
   connection is eventually deregistered on both sides, all parties complete.
"""
from .. import tlc
from ..programs import CORPUS, MIRRORS
from ..runs import corpus_check
from .c08 import mc_program

CLAUSES = {'barrier-returned-with-open-coroutine', 'pc-level-differs-from-open-tasks',
           'connection-closed-with-open-coroutine', 'connection-not-closed', 'open-coroutine-at-end',
           'reconcile-unknown-task', 'unset-unknown-connection', 'task-without-fork'}


async def p_pipeline(mpc, arg):
    """long pending pipeline, nothing awaited before the barrier / shutdown"""
    await mpc.start()
    secint = mpc.SecInt(8)
    x = mpc.input(secint(mpc.pid + 1))
    y = x[0]
    for k in range(arg % 4 + 2):
        y = y * x[k % len(x)] + 1
    await mpc.barrier()
    z = y * y
    o = mpc.output(z % 5)
    await mpc.shutdown()
    return o.result() if o.done() else 'PENDING'


async def p_nested_barrier(mpc, arg):
    """barrier inside an MPyC coroutine (depth > 0) and at top level"""
    await mpc.start()
    secint = mpc.SecInt(8)

    @mpc.coroutine
    async def inner(a):
        await mpc.returnType(secint)
        b = a * a
        await mpc.barrier('inner')
        c = b * a
        return c
    x = mpc.input(secint(2), senders=0)
    y = inner(x)
    await mpc.gather(y)          # nothing else may be pending while a depth-1 barrier waits
    w = y + x * x
    await mpc.barrier('outer')
    r = await mpc.output(w)
    await mpc.shutdown()
    return r


async def p_fire_forget(mpc, arg):
    """result-less MPyC coroutines (return type None, like mpc.peek) started and never awaited"""
    await mpc.start()
    secint = mpc.SecInt(8)
    log = []

    @mpc.coroutine
    async def bg(x, tag) -> None:
        for _ in range(3):
            x = x * x - 1
            await mpc.output(x % 5)
        log.append(tag)
    x = mpc.input(secint(2), senders=0)
    bg(x, 'a')
    bg(x + 1, 'b')
    mpc.peek(x, 'peek')
    await mpc.barrier()
    done_at_barrier = sorted(log)
    bg(x, 'c')
    await mpc.shutdown()
    return [done_at_barrier, sorted(log)]


def run(ctx):
    wd = tlc.make_workdir()
    try:
        for p in (['main_mul2', 'main_noawait'] if ctx.quick else ['main_out', 'main_mul2', 'main_noawait', 'main_await', 'main_conv']):
            big = p in ('main_await', 'main_conv')
            res = mc_program(ctx, wd, p, 3, 1, fair=not big, terminal=False)
            if not res.ok:
                ctx.violation(f'C35:model:{p}:{res.violation}', {'program': p, 'cex_tail': res.cex[-2:]})
        if not ctx.quick:
            res = mc_program(ctx, wd, 'main_noawait', 4, 1, fair=False, terminal=False, timeout=3000)
            if not res.ok:
                ctx.violation(f'C35:model:main_noawait@4:{res.violation}', {'cex_tail': res.cex[-2:]})
        extra = {'fire_forget': p_fire_forget, 'pipeline': p_pipeline, 'nested_barrier': p_nested_barrier, 'm_noawait': MIRRORS['main_noawait'],
                 'm_mul2': MIRRORS['main_mul2']}
        names = ['fire_forget', 'pipeline', 'nested_barrier', 'm_noawait', 'm_mul2', 'barrier', 'done_results']
        if not ctx.quick:
            names += ['await_fork', 'random_ops', 'seclist', 'conv']
        cfgs = [(3, 1), (2, 0), (5, 2)] if ctx.quick else [(2, 0), (3, 0), (3, 1), (4, 1), (5, 1), (5, 2)]
        runs = corpus_check(ctx, 'C35', names, cfgs, nrand=3 if ctx.quick else 10,
                            budget_events=90000 if ctx.quick else 500000, clauses=CLAUSES, nfam=4,
                            extra_progs=extra)
        nb = sum(1 for r in runs for e in r['events'] if e['ev'] == 'barrier_out')
        nc = sum(1 for r in runs for e in r['events'] if e['ev'] == 'close')
        ctx.notes['barrier_exits_checked'] = nb
        ctx.notes['connection_closes_checked'] = nc
        if nb == 0 or nc == 0:
            ctx.machinery('vacuous: no barrier exit / close event recorded')
        ctx.assumptions += ['schedules are fair (barrier/shutdown poll with sleep(0))']
    finally:
        tlc.rm_workdir(wd)
