"""C10  Message framing tolerates any stream chunking and arrival order.

1. TLC model-checks Wire exhaustively (every chunking x every receive order x sends interleaved).
2. spec -> code: every edge of each dumped state graph is executed on a real MessageExchanger pair
   (bytes produced by the real send()/connection_made()) and the projected state compared.
3. code -> spec: systematically enumerated chunkings of real streams (all 2^(n-1) chunkings of short
   streams, all <=3-cut chunkings of longer ones, all 1-/2-cut chunkings of real handshakes for many
   (m, t, party pair)) are recorded and validated by TLC against WireTrace.
"""
import itertools
import json
import os
import random

from .. import tlc
from ..dot import Graph, parse_action
from ..wire_impl import WireImpl, lab2int

L1 = (1, 0, 0, 0, 0, 0, 0, 0)
L2 = (2, 0, 0, 0, 0, 0, 0, 0)
L3 = (3, 0, 0, 0, 0, 0, 0, 0x40)
LN = (255,) * 8
MSGS = {
    'A': [(L1, ()), (LN, (9,)), (L2, (5, 6))],
    'B': [(L2, tuple(range(7, 20))), (L1, ())],
    'C': [(L1, (1, 2, 3, 4, 5)), (L3, ()), (LN, (0,))],
    'Dup': [(L1, (3,)), (L1, (4,))],
    'One0': [(L1, ())],
    'One1': [(LN, (77,))],
    'One2': [(L3, (1, 0))],
}
# graph configurations: (msgs, m, t, me, peer, no_prss)  -- NKeys follows from (m, t, me, peer)
GRAPHS_QUICK = [('A', 3, 1, 1, 0, False), ('B', 3, 1, 0, 1, False), ('Dup', 2, 0, 1, 0, True)]
GRAPHS_THOROUGH = GRAPHS_QUICK + [('A', 4, 1, 1, 0, False), ('C', 3, 1, 2, 0, True),
                                  ('C', 5, 2, 1, 0, False), ('B', 2, 0, 1, 0, False)]


def mc_module(name, msgs, base='WireTrace'):
    body = to_msgs(msgs)
    return f'---- MODULE {name} ----\nEXTENDS {base}\nMsgsC == {body}\n====\n'


def to_msgs(msgs):
    return tlc.to_tla([[list(l), list(p)] for l, p in msgs])


def constants(cfgname, impl, maxchunk):
    return {'Msgs': '<- MsgsC', 'NKeys': impl.nkeys_expected(), 'HasHS': 'TRUE' if impl.has_hs else 'FALSE',
            'PeerPid': impl.peer, 'MaxChunk': maxchunk}


INVS = ['NoErr', 'DeliveredRight', 'NoPartialDelivery', 'AllDelivered', 'HandshakeExact', 'DupDetected']


def obs_equal(ctx, st, ob, where):
    """Compare spec state st with implementation observation ob.  Returns failing field or None."""
    sgot = {tuple(k): bytes(v) for k, v in (st['got'].items() if isinstance(st['got'], dict) else [])}
    if sgot != ob['got']:
        return 'got'
    if st['err'] != ob['err']:
        return 'err'
    if st['peer'] != ob['peer']:
        return 'peer'
    if st['peer'] != 999 and [bytes(k) for k in st['keys']] != ob['keys'] and ob['keys'] is not None:
        if ob['keys'] or st['keys']:
            return 'keys'
    # internals: DRIFT only
    if bytes(st['rx']) != ob['rx']:
        ctx.drift.append(f'{where}: rx differs from spec')
    return None


def replay_graph(ctx, name, msgs, m, t, me, peer, no_prss, wd):
    probe = WireImpl(m, t, me, peer, no_prss, key_byte=100)
    consts = constants(name, probe, 64)
    hs_real = probe.stream
    probe.close()
    cfg = os.path.join(wd, f'{name}.cfg')
    tlc.write_cfg(cfg, constants=consts, invariants=INVS)
    dump = os.path.join(wd, f'graph_{name}')
    res = tlc.run_tlc('MC' + name, cfg, workdir=wd, dump=dump, coverage=True, timeout=900)
    ctx.add_tlc(res, f'Wire[{name},m={m},t={t},me={me},peer={peer}]')
    if not res.ok:
        # the *design* is violated: spec-level finding, report as violation of the model
        ctx.violation(f'C10:model:{res.violation}', {'config': name, 'cex': res.cex[-3:]})
        return
    for act in ('Send', 'Arrive', 'Receive'):
        if res.coverage and res.coverage.get(act, (1, 1))[0] == 0:
            ctx.machinery(f'vacuous: action {act} never taken in {name}')
    g = Graph(dump + '.dot')
    parent = g.bfs_tree()
    if len(parent) != res.distinct:
        ctx.machinery(f'graph dump incomplete: {len(parent)} vs {res.distinct}')
    nedges = 0
    # expected handshake bytes according to the spec
    init = g.state(g.init[0])
    if bytes(init['stream']) != hs_real:
        ctx.violation('C10:handshake-bytes', {'config': name, 'spec': list(init['stream']), 'impl': list(hs_real)})
        return
    for (src, dst, act) in g.edges:
        path = g.path_to(parent, src) + [(src, act, dst)]
        impl = WireImpl(m, t, me, peer, no_prss, key_byte=100)
        try:
            for (s, a, d) in path:
                nm, args = parse_action(a)
                if nm == 'Send':
                    i = g.state(s)['nsent']
                    impl.send(msgs[i][0], msgs[i][1])
                elif nm == 'Arrive':
                    impl.arrive(args[0])
                elif nm == 'Receive':
                    impl.receive(args[0])
            st = g.state(dst)
            if bytes(st['stream']) != impl.stream:
                ctx.violation('C10:frame-bytes', {'config': name, 'spec': list(st['stream']),
                                                  'impl': list(impl.stream)})
                return
            bad = obs_equal(ctx, st, impl.observe(), name)
            if bad:
                ob = impl.observe()
                if ctx.violation(f'C10:replay:{bad}', {
                        'config': [name, m, t, me, peer, no_prss], 'path': [a for _, a, _ in path],
                        'field': bad, 'spec': {k: repr(v) for k, v in st.items() if k in ('got', 'err', 'peer', 'keys')},
                        'impl': {k: repr(v) for k, v in ob.items()}}):
                    return
        finally:
            impl.close()
        nedges += 1
        ctx.case((name, src, act))
    ctx.traces += nedges
    ctx.sample({'graph': name, 'edge_path': [a for _, a, _ in g.path_to(parent, g.edges[-1][0])] + [g.edges[-1][2]]})


# ---- code -> spec -----------------------------------------------------------------------------

def compositions(n, maxcuts=None):
    """All ways to cut a stream of n bytes into chunks (as lists of chunk sizes)."""
    if maxcuts is None:
        for mask in range(1 << (n - 1)):
            sizes, last = [], 0
            for i in range(n - 1):
                if mask >> i & 1:
                    sizes.append(i + 1 - last)
                    last = i + 1
            sizes.append(n - last)
            yield sizes
    else:
        for c in range(maxcuts + 1):
            for cuts in itertools.combinations(range(1, n), c):
                pts = (0,) + cuts + (n,)
                yield [pts[i + 1] - pts[i] for i in range(len(pts) - 1)]


def obs_json(ob):
    return {'got': [[list(k), list(v)] for k, v in sorted(ob['got'].items())], 'err': ob['err'],
            'peer': ob['peer'], 'keys': [list(k) for k in ob['keys']]}


def record(m, t, me, peer, no_prss, msgs, sizes, recv_plan, send_first=True):
    """Run one chunking on the real code; recv_plan: list of positions (number of chunks delivered
    before the receive of message i is issued)."""
    impl = WireImpl(m, t, me, peer, no_prss, key_byte=100)
    ev = []
    try:
        for lab, pl in msgs:
            impl.send(lab, pl)
            ev.append({'a': 'send', 'obs': obs_json(impl.observe())})
        assert sum(sizes) == len(impl.stream), (sum(sizes), len(impl.stream))
        pending = sorted(range(len(msgs)), key=lambda i: recv_plan[i])
        done = 0
        for pos in range(len(sizes) + 1):
            while done < len(pending) and recv_plan[pending[done]] <= pos:
                lab = msgs[pending[done]][0]
                if not any(e['a'] == 'recv' and tuple(e['pc']) == tuple(lab) for e in ev):
                    impl.receive(lab)
                    ev.append({'a': 'recv', 'pc': list(lab), 'obs': obs_json(impl.observe())})
                done += 1
            if pos < len(sizes):
                impl.arrive(sizes[pos])
                ev.append({'a': 'arrive', 'k': sizes[pos], 'obs': obs_json(impl.observe())})
        return ev, impl.nkeys_expected(), impl.has_hs, len(impl.stream)
    finally:
        impl.close()


def validate_group(ctx, wd, gname, msgs, m, t, me, peer, no_prss, chunkings, rnd):
    traces = []
    nk = hs = None
    for sizes in chunkings:
        n = len(sizes)
        plan = [rnd.choice((0, n, rnd.randint(0, n))) for _ in msgs]
        ev, nk, hs, _ = record(m, t, me, peer, no_prss, msgs, sizes, plan)
        traces.append(ev)
        ctx.case((gname, tuple(sizes), tuple(plan)))
    if not traces:
        return
    tf = os.path.join(wd, f'traces_{gname}.json')
    with open(tf, 'w') as f:
        json.dump(traces, f)
    with open(os.path.join(wd, f'MCT{gname}.tla'), 'w') as f:
        f.write(mc_module('MCT' + gname, msgs))
    cfg = os.path.join(wd, f'T{gname}.cfg')
    tlc.write_cfg(cfg, spec='TraceSpec', deadlock=True,
                  constants={'Msgs': '<- MsgsC', 'NKeys': nk, 'HasHS': 'TRUE' if hs else 'FALSE',
                             'PeerPid': peer, 'MaxChunk': 1},
                  invariants=['Accepted', 'EndOK', 'DeliveredRight', 'NoPartialDelivery', 'AllDelivered',
                              'HandshakeExact'])
    res = tlc.run_tlc('MCT' + gname, cfg, workdir=wd, env={'TRACE_FILE': tf}, timeout=900)
    ctx.add_tlc(res, f'WireTrace[{gname}]')
    ctx.traces += len(traces)
    ctx.sample({'trace_group': gname, 'chunking': chunkings[len(chunkings) // 2],
                'events': [e['a'] + (str(e.get('k', '')) if e['a'] == 'arrive' else '') for e in traces[len(traces) // 2]][:20]})
    if not res.ok:
        ctx.violation(f'C10:trace:{res.violation}', {
            'group': gname, 'config': [m, t, me, peer, no_prss], 'msgs': [[list(a), list(b)] for a, b in msgs],
            'tlc': res.violation, 'state': res.cex[-1] if res.cex else None})


def run(ctx):
    rnd = random.Random(ctx.seed)
    graphs = GRAPHS_QUICK if ctx.quick else GRAPHS_THOROUGH
    files = {}
    for name, *_ in graphs:
        files[f'MC{name}.tla'] = mc_module('MC' + name, MSGS[name], 'Wire')
    wd = tlc.make_workdir(files)
    try:
        for (name, m, t, me, peer, no_prss) in graphs:
            replay_graph(ctx, name, MSGS[name], m, t, me, peer, no_prss, wd)
        # single frames: every chunking (client side endpoint: no handshake)
        for nm in ('One0', 'One1', 'One2'):
            n = 12 + len(MSGS[nm][0][1])
            validate_group(ctx, wd, nm, MSGS[nm], 2, 0, 0, 1, False, list(compositions(n)), rnd)
        # three frames, at most 3 cuts (quick: 2 cuts)
        n = sum(12 + len(p) for _, p in MSGS['C'])
        validate_group(ctx, wd, 'C3', MSGS['C'], 3, 1, 0, 2, False,
                       list(compositions(n, 2 if ctx.quick else 3)), rnd)
        # handshakes: (m, t) x party pairs, all 1- and 2-cut chunkings of handshake + one frame
        hs_cfgs = [(2, 0), (3, 1), (5, 2)] if ctx.quick else [(2, 0), (3, 0), (3, 1), (4, 1), (5, 1), (5, 2), (6, 2), (7, 3)]
        for (m, t) in hs_cfgs:
            pairs = [(me, peer) for me in range(m) for peer in range(me)]
            if ctx.quick:
                pairs = pairs[:2] + pairs[-1:]
            for (me, peer) in pairs:
                for no_prss in ((False,) if ctx.quick else (False, True)):
                    probe = WireImpl(m, t, me, peer, no_prss, key_byte=100)
                    n = len(probe.stream) + 12 + 1
                    probe.close()
                    ch = list(compositions(n, 1 if (ctx.quick and n > 40) else 2))
                    if len(ch) > 1500:
                        ch = rnd.sample(ch, 1500)
                    validate_group(ctx, wd, f'HS{m}{t}{me}{peer}{int(no_prss)}', MSGS['One1'], m, t, me, peer,
                                   no_prss, ch, rnd)
        ctx.exhaustive = True
        ctx.notes['rule'] = ('graph edges of Wire (every edge executed on a real MessageExchanger pair) plus '
                             'systematically enumerated chunkings x receive plans validated by WireTrace; '
                             'distinct = distinct (configuration, edge) / (group, chunking, receive plan)')
        ctx.assumptions += ['payload sizes < 256 bytes in the model (size bytes 2-4 are zero)',
                            'asyncio delivers bytes of one connection in order (TCP)']
    finally:
        tlc.rm_workdir(wd)
