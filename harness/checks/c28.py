"""C28  Secure group operations match plain group operations.

The specification is Groups.tla (C27): S_n on permutations, every other family on exponents of the built-in generator.
On simulated party worlds (m in {1,3,4,5}; PRSS and dealt randomness) secure group elements are obtained by conversion
of plain elements and by mpc.input from varying senders; @ (secure/secure, secure/plain, plain/secure, a @ a and the
additive / multiplicative aliases), ~, ==, !=, if_else, repeat with public exponents, with secret exponents (secure
prime-field and secure integers) for public and secret bases, repeat_public and decode(encode(m)) are run on the real
secure types and opened; the opened element is mapped to its exponent with the plain table and TLC demands exponent
arithmetic (CycOK), permutation composition (SymOK / SymPowOK) and CodecOK.  All parties must open the same value.
Hyperelliptic curves in affine (Mumford) representation use secure polynomials and run in the NumPy side venv.
"""
import json
import os
import random
import subprocess
import sys

from .. import tlc
from .. import groupsec as gs
from .. import npchild
from ..secrun import run_batch
from .c27 import validate_groups, ROOT

FAMS_Q = [(['S', 3], 1.0), (['S', 4], 1.0), (['S', 5], 1.0), (['QR', {'p': 23}], 1.0), (['QR', {'l': 64}], 0.5), (['SG', {'l': 16, 'n': 8}], 1.0),
          (['SG', {'p': 67, 'q': 11}], 1.0), (['EC', 'Ed25519', 'affine'], 0.4), (['EC', 'Ed25519', 'extended'], 0.4),
          (['EC', 'Ed448', 'projective'], 0.3), (['EC', 'Ed448', 'extended'], 0.4), (['EC', 'secp256k1', 'projective'], 0.4),
          (['EC', 'BN256', 'projective'], 0.3), (['EC', 'BN256_twist', 'projective'], 0.2), (['HC', {'curvename': 'kummer1271'}], 1.0),
          (['Cl', {'Delta': -23}], 0.5), (['Cl', {'Delta': -71}], 0.2), (['Cl', {'l': 16}], 0.08)]
FAMS_T = [(s_, w) for s_, w in FAMS_Q] + \
    [(['S', 2], 1.0), (['S', 7], 0.5), (['QR', {'p': 47}], 1.0), (['QR', {'l': 256}], 0.2), (['SG', {'l': 64, 'n': 32}], 0.3),
     (['EC', 'Ed25519', 'projective'], 0.3), (['EC', 'Ed448', 'affine'], 0.3), (['Cl', {'Delta': -47}], 0.2), (['Cl', {'l': 28}], 0.02)]
NP_FAMS = [(['HC', {'l': 5, 'genus': 3}], 0.3), (['HC', {'l': 8, 'genus': 2}], 0.5), (['HC', {'l': 6, 'genus': 1}], 0.5)]


def run_worlds(ctx, fams, worlds, rnd, quick, prop='C28'):
    """-> events"""
    from ..sim.world import load_mpyc
    load_mpyc()
    allev = []
    for (m, t, no_prss, frac) in worlds:
        cases = []
        for spec, w in fams:
            cs = gs.gen_cases(spec, rnd, quick)
            cases += [c for c in cs if rnd.random() < frac * w or c.get('isolate')]
        iso = [c for c in cases if c.get('isolate')]
        cases = [c for c in cases if not c.get('isolate')]
        tag = f'grpm{m}t{t}{"n" if no_prss else "p"}'
        st, results, errors = run_batch(cases, gs.evaluator, m, t, seed=ctx.seed + m, no_prss=no_prss, chunk=1, max_steps=400000000,
                                        case_timeout=10.0)
        if st != 'done' and not all(len(results[p] or []) == len(cases) for p in range(m)):
            ctx.violation(f'{prop}:run:not-complete', {'config': tag, 'status': st, 'errors': sorted({e[0][:90] for e in errors if e})[:3]})
            continue
        if any(len(results[p] or []) != len(cases) for p in range(m)):
            ctx.violation(f'{prop}:run:not-complete', {'config': tag, 'status': 'results missing', 'errors': [str(e)[:200] for e in errors if e][:3]})
            continue
        evs = gs.to_events(cases, results, m, ctx, prop, tag)
        for c in iso:
            # a case that is known to spin for ever (secure reciprocal of zero) gets a world of its own with a small step budget
            st, results, errors = run_batch([c], gs.evaluator, m, t, seed=ctx.seed + m, no_prss=no_prss, chunk=1, max_steps=40000, case_timeout=10.0)
            res1 = [r if r else [{'exc': 'no result within the step budget'}] for r in results]
            evs += gs.to_events([c], res1, m, ctx, prop, tag)
        for e in evs:
            e['coord'] = e['coord']
            ctx.case((tag, e['fam'], e['coord'], (e['l'] if e['kind'] == 'cyc' else '') or e['op'], e['e1'], e['e2'], e['n'], str(e['a']), str(e['b']), e['m']))
        allev += [dict(e, world=tag) for e in evs]
    return allev


def run(ctx):
    rnd = random.Random(ctx.seed)
    wd = tlc.make_workdir()
    try:
        fams = FAMS_Q if ctx.quick else FAMS_T
        worlds = [(1, 0, False, 0.3), (3, 1, False, 1.0), (4, 1, True, 0.15)] if ctx.quick else \
            [(1, 0, False, 0.5), (2, 0, False, 0.2), (3, 1, False, 1.0), (3, 1, True, 0.4), (4, 1, False, 0.2), (5, 2, False, 0.12)]
        evs = run_worlds(ctx, fams, worlds, rnd, ctx.quick)
        validate28(ctx, wd, evs, 'worlds')
        # hyperelliptic curves in Mumford representation: secure polynomials need NumPy
        npw = [(1, 0, False, 0.3), (3, 1, False, 0.5)] if ctx.quick else [(1, 0, False, 0.5), (3, 1, False, 1.0), (3, 1, True, 0.3), (4, 1, False, 0.2)]
        evs_np = npchild.call(ctx, 'harness.checks.c28.np_events', {'fams': NP_FAMS, 'worlds': npw})
        validate28(ctx, wd, evs_np, 'npworlds')
        ctx.notes['events_numpy_venv'] = len(evs_np)
        ctx.sample({k: v for k, v in next(e for e in evs if e['kind'] == 'cyc' and e['op'] == 'repeat').items() if v != gs.BLANK.get(k)})
        ctx.sample({k: v for k, v in next(e for e in evs if e['kind'] == 'sym').items() if v != gs.BLANK.get(k)})
        ctx.assumptions += ['exponents |e| <= 5 around the generator; secret exponents from the prime field of the group order (or the '
                            'class group\'s secure integer type); messages < 15 for decode']
    finally:
        tlc.rm_workdir(wd)


def np_events(job, col):
    return run_worlds(col, [(f, w) for f, w in job['fams']], [tuple(w) for w in job['worlds']], random.Random(col.seed + 9), col.quick)


def validate28(ctx, wd, evs, tag):
    if not evs:
        return
    cfg = os.path.join(wd, f'{tag}.cfg')
    tlc.write_cfg(cfg, spec='TSpec', invariants=['SymOK', 'SymPowOK', 'CycOK', 'CodecOK', 'LawOK'])
    tf = os.path.join(wd, f'{tag}_tr.json')
    json.dump(evs, open(tf, 'w'))
    res = tlc.run_tlc('Groups', cfg, workdir=wd, env={'TRACE_FILE': tf}, timeout=3000, cont=True)
    ctx.add_tlc(res, f'Groups[{tag}]')
    ctx.traces += len(evs)
    if res.generated < len(evs):
        raise tlc.TLCError(f'not all events were evaluated by TLC: {res.generated} < {len(evs)}')
    if not res.ok and not res.all_violations:
        raise tlc.TLCError('Groups failed without listing violations:\n' + res.stdout[-2500:])
    for inv, k in res.all_violations:
        e = evs[k - 1]
        ctx.violation(f'C28:{e["fam"]}:{e["coord"]}:{(e["l"] if e["kind"] == "cyc" else "") or e["op"]}:{inv}:{e["world"]}' + (':exceptional' if e['kind'] == 'cyc' and e['q'] == 1 else ''),
                      {'event': {k2: v for k2, v in e.items() if v != gs.BLANK.get(k2)}})
