"""Shared by C12 / C13 / C15: field configurations, worker invocation, TLC validation of recorded calls."""
import json
import os
import subprocess
import sys

from .. import tlc

ROOT = os.path.dirname(os.path.dirname(os.path.dirname(os.path.abspath(__file__))))
# name -> (P, D, MODC definition name, modulus as int read base P)
FIELDS = {
    'GF(5)': (5, 1, 'M1', 0), 'GF(7)': (7, 1, 'M1', 0), 'GF(11)': (11, 1, 'M1', 0), 'GF(13)': (13, 1, 'M1', 0),
    'GF(2^2)': (2, 2, 'M4', 7), 'GF(2^3)': (2, 3, 'M8', 11), 'GF(3^2)': (3, 2, 'M9', 10),
}
NP_PY = os.path.join(ROOT, '.venv-np', 'bin', 'python')


def have_np():
    return os.path.exists(NP_PY)


def run_worker(wd, job, name):
    jp = os.path.join(wd, f'job_{name}.json')
    op = os.path.join(wd, f'calls_{name}.json')
    with open(jp, 'w') as f:
        json.dump(job, f)
    py = NP_PY if job.get('np') else sys.executable
    env = dict(os.environ)
    try:
        p = subprocess.run([py, os.path.join(ROOT, 'harness', 'workers', 'thresha_worker.py'), jp, op],
                           capture_output=True, text=True, env=env, timeout=300)
    except subprocess.TimeoutExpired:
        return None, 'worker timed out after 300 s (implementation hangs)'
    if p.returncode != 0:
        return None, p.stderr[-1500:]
    with open(op) as f:
        d = json.load(f)
    return d, None


def consts(fname, m, t, extra=None):
    P, D, mod, _ = FIELDS[fname]
    c = {'P': P, 'D': D, 'MODC': f'<- {mod}', 'NM': m, 'NT': t}
    c.update(extra or {})
    return c


def validate_calls(ctx, wd, module, calls, fname, m, t, invariants, tag):
    tf = os.path.join(wd, f'trace_{tag}.json')
    with open(tf, 'w') as f:
        json.dump(calls, f)
    cfg = os.path.join(wd, f'trace_{tag}.cfg')
    tlc.write_cfg(cfg, spec='TSpec', constants=consts(fname, m, t), invariants=invariants)
    res = tlc.run_tlc(module, cfg, workdir=wd, env={'TRACE_FILE': tf}, timeout=1800)
    ctx.add_tlc(res, f'{module}[{tag}]')
    return res


def failing_call(res, calls):
    import re
    st = res.cex[-1] if res.cex else res.stdout
    mk = re.search(r'\bk = (\d+)', st)
    if mk:
        k = int(mk.group(1))
        return k, calls[k - 1]
    return None, None
