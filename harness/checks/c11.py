"""C11  Shares of every secure value form a consistent degree-t sharing.

1. TLC (ShareProto): for the pipeline  output(reshare(a op b))  over GF(5)/GF(7), (m,t) in {(3,1),(4,1),(5,2)},
   every dealer polynomial, every uci, every reshare coefficient tuple: Consistent (shares of every named
   value lie on a polynomial of its degree bound -- t after dealing/resharing, 2t after a local product --
   with the value as constant term), OutputsRight, OnlyReceiversHear.
2. code -> spec (god view): real programs over small fields are run in the simulator (m in {2,3,4,5,7}, PRSS
   on/off, random schedules); at the end every party's own share of every live secure value is read with
   mpc.gather and the value is opened; TLC (SharesTrace) interpolates the m shares over the field and checks
   degree <= t and constant term = value.  Values: inputs, sums, products (mul + reshare), PRSS randoms and
   random bits, if_else, in_prod, prod, comparison results, conversions, list operations.
"""
import os
import random

from .. import tlc
from ..sim.world import World, RandomScheduler
from .thresha_common import FIELDS, consts


async def prog_fld(mpc, arg):
    order, vals = arg
    await mpc.start()
    sf = mpc.SecFld(order)
    x = [mpc.input(sf(v % order), senders=i % len(mpc.parties)) for i, v in enumerate(vals)]
    live = list(x)
    live.append(x[0] + x[1])
    live.append(x[0] * x[1])
    live.append(x[0] * x[1] * x[2])
    live.append(mpc.in_prod(x[:2], x[1:3]))
    live.append(mpc.prod(x))
    live.append(mpc._random(sf))
    live.append(mpc.if_else(x[0] == x[1], x[2], x[0]))
    live.append(x[2] / (x[1] + 1) if (sf.field(vals[1] % order) + 1) != 0 else x[2])
    live += mpc.random_bits(sf, 2)
    live.append(mpc.sum(x) - x[0] * 3)
    sh = await mpc.gather(live)
    val = await mpc.output(live)
    await mpc.shutdown()
    return [int(s.value) for s in sh], [int(v.value) for v in val]


async def prog_int(mpc, arg):
    l, vals = arg
    await mpc.start()
    si = mpc.SecInt(l)
    x = [mpc.input(si(v), senders=i % len(mpc.parties)) for i, v in enumerate(vals)]
    live = list(x)
    live.append(x[0] * x[1])
    live.append(x[0] < x[1])
    live.append(mpc.max(x))
    live.append(mpc.abs(x[2]))
    live.append(x[0] % 2)
    live += mpc.random_bits(si, 2)
    live.append(mpc.if_else(x[0] >= 0, x[1], x[2]))
    sh = await mpc.gather(live)
    val = await mpc.output(live, raw=True)
    await mpc.shutdown()
    return [int(s.value) for s in sh], [int(v.value) for v in val]


async def prog_fxp(mpc, arg):
    l, f, vals = arg
    await mpc.start()
    sx = mpc.SecFxp(l, f)
    x = [mpc.input(sx(v), senders=i % len(mpc.parties)) for i, v in enumerate(vals)]
    live = list(x)
    live.append(x[0] * x[1])
    live.append(x[0] + x[1])
    live.append(mpc.trunc(x[0] * 2, 1))
    sh = await mpc.gather(live)
    val = await mpc.output(live, raw=True)
    await mpc.shutdown()
    return [int(s.value) for s in sh], [int(v.value) for v in val]


def model(ctx, wd, fname, m, t, sb):
    cfg = os.path.join(wd, f'sp_{m}_{t}.cfg')
    c = consts(fname, m, t, {'MaxOps': 6, 'SecretsA': '<- SA', 'SecretsB': f'<- {sb}'})
    tlc.write_cfg(cfg, constants=c, invariants=['Consistent', 'OutputsRight', 'OnlyReceiversHear', 'NoSelfMessages'])
    res = tlc.run_tlc('MCShareProto', cfg, workdir=wd, timeout=3000)
    ctx.add_tlc(res, f'ShareProto[{fname},m={m},t={t}]')
    if not res.ok:
        ctx.violation(f'C11:model:{res.violation}', {'field': fname, 'm': m, 't': t, 'cex_tail': res.cex[-2:]})


def field_of(world_rt, kind, arg):
    if kind == 'fld':
        return world_rt.SecFld(arg[0]).field
    if kind == 'int':
        return world_rt.SecInt(arg[0]).field
    return world_rt.SecFxp(arg[0], arg[1]).field


def run(ctx):
    rnd = random.Random(ctx.seed)
    wd = tlc.make_workdir()
    try:
        model(ctx, wd, 'GF(5)', 3, 1, 'SB1')
        if not ctx.quick:
            model(ctx, wd, 'GF(7)', 3, 1, 'SB')
            model(ctx, wd, 'GF(5)', 4, 1, 'SB1')
            # (GF(7), m = 5, t = 2 has 7^2 dealer polynomials per secret and dealer: beyond TLC's set-size limit)
        # ---- god view ----
        jobs = []
        orders = [7, 11, 8, 9, 251] if ctx.quick else [7, 11, 13, 8, 9, 4, 251]
        cfgs = [(3, 1), (4, 1), (5, 2)] if ctx.quick else [(2, 0), (3, 1), (4, 1), (5, 2), (7, 3), (5, 1)]
        for order in orders:
            for (m, t) in cfgs:
                if order <= m:
                    continue     # would be lifted to an extension field: covered by C04
                jobs.append(('fld', (order, [rnd.randrange(order) for _ in range(3)]), m, t, 30))
        for (m, t) in cfgs:
            jobs.append(('int', (4, [rnd.randint(-8, 7) for _ in range(3)]), m, t, 3))
            jobs.append(('fxp', (4, 1, [rnd.randint(-4, 3) / 2 for _ in range(3)]), m, t, 2))
        groups = {}
        for kind, arg, m, t, k in jobs:
            for no_prss in (False, True):
                w = World(m, t, seed=ctx.seed + 5, no_prss=no_prss, sec_param=k)
                try:
                    prog = {'fld': prog_fld, 'int': prog_int, 'fxp': prog_fxp}[kind]
                    w.spawn(prog, arg)
                    st = w.run(RandomScheduler(ctx.seed + m * 7 + no_prss, 'mixed'), max_steps=150000)
                    w._switch(0)
                    fld = field_of(w.rts[0], kind, arg)
                    order_ = fld.order
                    char = fld.characteristic if hasattr(fld, 'characteristic') else None
                    ext = fld.ext_deg if hasattr(fld, 'ext_deg') else 1
                finally:
                    w.close()
                ctx.case((kind, str(arg), m, t, no_prss))
                if st != 'done' or any(w.errors):
                    ctx.violation(f'C11:run:{kind}:not-complete', {'arg': arg, 'm': m, 't': t, 'no_prss': no_prss,
                                                                   'status': st, 'errors': w.errors})
                    continue
                vals = w.results[0][1]
                if any(r[1] != vals for r in w.results):
                    ctx.violation(f'C11:run:{kind}:outputs-differ', {'arg': arg, 'm': m, 't': t, 'results': w.results})
                    continue
                p = char or order_
                d = ext
                gkey = (p, d, m, t)
                for idx, v in enumerate(vals):
                    groups.setdefault(gkey, []).append({'kind': 'shares', 'shares': [w.results[i][0][idx] for i in range(m)],
                                                        'val': v, 'src': [kind, str(arg), no_prss, idx],
                                                        't': 0, 'm': 0, 'n': 0, 'bounds': [], 'order': 0})
        modname = {(2, 2): 'M4', (2, 3): 'M8', (3, 2): 'M9'}
        for (p, d, m, t), evs in sorted(groups.items()):
            if d > 1 and (p, d) not in modname:
                ctx.drift.append(f'field GF({p}^{d}) has no configured modulus: {len(evs)} events not validated')
                continue
            tf = os.path.join(wd, f'sh_{p}_{d}_{m}_{t}.json')
            import json
            with open(tf, 'w') as f:
                json.dump(evs, f)
            cfg = os.path.join(wd, f'sh_{p}_{d}_{m}_{t}.cfg')
            tlc.write_cfg(cfg, spec='TSpec', constants={'P': p, 'D': d, 'MODC': '<- ' + (modname.get((p, d), 'M1')),
                                                         'NM': m, 'NT': t}, invariants=['SharesOK'])
            res = tlc.run_tlc('MCSharesTrace', cfg, workdir=wd, env={'TRACE_FILE': tf}, timeout=1800)
            ctx.add_tlc(res, f'SharesTrace[GF({p}^{d}),m={m},t={t}]')
            ctx.traces += len(evs)
            if not res.ok:
                import re
                mk = re.search(r'\bk = (\d+)', res.stdout)
                ev = evs[int(mk.group(1)) - 1] if mk else None
                ctx.violation(f'C11:trace:{res.violation}', {'field': [p, d], 'm': m, 't': t, 'event': ev})
            ctx.sample({'field': [p, d], 'm': m, 't': t, 'event': evs[len(evs) // 2]}, cap=5)
        ctx.assumptions += ['fields up to 10 bits (TLC integers); default 64-bit fields are not interpolated by TLC',
                            'shares are read at the end of the program (all operations completed)']
    finally:
        tlc.rm_workdir(wd)
