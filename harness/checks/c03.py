"""C03  Fixed-point integrality flags are never wrong.

TLC (SecFxp.FlagOK, BoundOK): a result marked integral must be a whole number, and a later product that takes the
shortcut for integral operands must still be within its bound.  Real fixed-point programs over SecFxp(8,4) and
SecFxp(10,5) are evaluated on party worlds: construction from ints / floats / None, input, + - * (secure, public
int, public float), comparisons, sum / prod / in_prod, if_else, lshift-like scalings, and the list operations
(vector_add, vector_sub, scalar_mul, schur_prod, list if_else / if_swap, list input, matrix products) on lists of
MIXED integrality; every result element is opened together with its integral mark and then squared.
The oracle is one-sided: only integral=True with a non-whole value (or a broken bound) is a violation.
"""
import random

from .. import tlc
from ..secrun import configs
from .c01 import validate
from . import c02

BLANK = c02.BLANK


def gen_cases(l, f, rnd, quick):
    s = 1 << f
    cases = []
    whole = [-2 * s, -s, 0, s, 3 * s]
    frac = [1, -1, s // 2, s + 1, -s - 3, 5]
    n = 12 if quick else 80
    for _ in range(n):
        k = rnd.randint(2, 4)
        xs = [rnd.choice(whole + frac) for _ in range(k)]
        ys = [rnd.choice(whole + frac) for _ in range(k)]
        # make sure mixed lists with a whole first element occur (the flag of element 0 is the risky one)
        if rnd.random() < 0.6:
            xs[0] = rnd.choice(whole)
            ys[0] = rnd.choice(whole)
            xs[1] = rnd.choice(frac)
        for op in ('listadd', 'listsub', 'schur', 'scalarmul', 'ifelselist', 'ifswaplist', 'inputlist', 'sumlist', 'inprod', 'prodlist', 'matprod'):
            cases.append(dict(BLANK, op=op, xs=xs, ys=ys, n=rnd.randint(0, 1), a=rnd.choice(whole + frac), l=l, f=f))
    for a in whole + frac:
        for b in whole + frac:
            for op in ('add', 'sub', 'mul', 'lt', 'ifelse', 'max'):
                if rnd.random() < (0.3 if quick else 1):
                    cases.append(dict(BLANK, op='s:' + op, a=a, b=b, n=rnd.randint(0, 1), l=l, f=f))
        for op in ('neg', 'mulint', 'mulfloat', 'construct', 'trunc0', 'abs', 'mod2', 'modfrac', 'divint', 'divfrac', 'pow2', 'sgn', 'floordiv'):
            cases.append(dict(BLANK, op='s:' + op, a=a, l=l, f=f))
    return cases


async def evaluate(mpc, e, idx, arg):
    """returns list of [scaled value, integral flag, scaled square] per result element"""
    secfxp = mpc.SecFxp(e['l'], e['f'])
    m = len(mpc.parties)
    s = 1 << e['f']

    def mk(v):
        # whole numbers are constructed from ints (integral=True), others from floats
        return secfxp(v // s) if v % s == 0 else secfxp(v / s)

    def inp(v, kk=0):
        return mpc.input(mk(v), senders=(idx + kk) % m)
    op = e['op']
    if op.startswith('s:'):
        op = op[2:]
        a = inp(e['a'])
        if op in ('add', 'sub', 'mul', 'lt', 'max'):
            b = inp(e['b'], 1)
            r = {'add': lambda: a + b, 'sub': lambda: a - b, 'mul': lambda: a * b, 'lt': lambda: a < b,
                 'max': lambda: mpc.max(a, b)}[op]()
        elif op == 'ifelse':
            b = inp(e['b'], 1)
            c = inp(e['n'] * s, 2)
            r = mpc.if_else(c, a, b)
        elif op == 'neg':
            r = -a
        elif op == 'abs':
            r = abs(a)
        elif op == 'mulint':
            r = a * 3
        elif op == 'mulfloat':
            r = a * 0.5
        elif op == 'construct':
            r = mk(e['a'])
        elif op == 'trunc0':
            r = a + 0
        elif op == 'mod2':
            r = a % 2
        elif op == 'modfrac':
            r = a % 2.5
        elif op == 'divint':
            r = a / 4
        elif op == 'divfrac':
            r = a / 0.5
        elif op == 'pow2':
            r = a ** 2
        elif op == 'sgn':
            r = mpc.sgn(a)
        elif op == 'floordiv':
            r = a // 2
        rs = [r]
    else:
        xs = [inp(v, k) for k, v in enumerate(e['xs'])]
        ys = [inp(v, k + 1) for k, v in enumerate(e['ys'])]
        if op == 'listadd':
            rs = mpc.vector_add(xs, ys)
        elif op == 'listsub':
            rs = mpc.vector_sub(xs, ys)
        elif op == 'schur':
            rs = mpc.schur_prod(xs, ys)
        elif op == 'scalarmul':
            rs = mpc.scalar_mul(inp(e['a'], 2), xs)
        elif op == 'ifelselist':
            rs = mpc.if_else(inp(e['n'] * s, 2), xs, ys)
        elif op == 'ifswaplist':
            r1, r2 = mpc.if_swap(inp(e['n'] * s, 2), xs, ys)
            rs = r1 + r2
        elif op == 'inputlist':
            rs = mpc.input([mk(v) for v in e['xs']], senders=idx % m)
        elif op == 'sumlist':
            rs = [mpc.sum(xs)]
        elif op == 'inprod':
            rs = [mpc.in_prod(xs, ys)]
        elif op == 'prodlist':
            rs = [mpc.prod(xs[:2])]
        elif op == 'matprod':
            rs = mpc.matrix_prod([xs], [ys], tr=True)[0]
    flags = [bool(r.integral) for r in rs]
    vals = await mpc.output(list(rs), raw=True)
    sq = await mpc.output([r * r for r in rs], raw=True)
    return [[int(v), fl, int(q)] for v, fl, q in zip(vals, flags, sq)]


def expected_exact(e, h):
    """exact scaled value of result element h for the exact operations (None: no exact expectation)"""
    op = e['op']
    xs, ys, n, a = e['xs'], e['ys'], e['n'], e['a']
    if op == 'listadd':
        return xs[h] + ys[h]
    if op == 'listsub':
        return xs[h] - ys[h]
    if op == 'ifelselist':
        return xs[h] if n else ys[h]
    if op == 'ifswaplist':
        k = len(xs)
        first, second = (ys, xs) if n else (xs, ys)
        return (first + second)[h]
    if op == 'inputlist':
        return xs[h]
    if op == 'sumlist':
        return sum(xs)
    return None


def run(ctx):
    rnd = random.Random(ctx.seed)
    wd = tlc.make_workdir()
    try:
        for (l, f) in ([(10, 4)] if ctx.quick else [(10, 4), (12, 5)]):
            cases = gen_cases(l, f, rnd, ctx.quick)
            for (m, t, no_prss) in (configs(ctx.quick, ctx.seed)[:2] if ctx.quick else configs(False, ctx.seed)[:6]):
                tag = f'flag{l}_{f}m{m}t{t}{"n" if no_prss else "p"}'
                from ..secrun import run_batch
                st, results, errors = run_batch(cases, evaluate, m, t, seed=ctx.seed + 4, no_prss=no_prss, chunk=25)
                if st != 'done' or any(errors):
                    ctx.violation('C03:run:not-complete', {'config': tag, 'status': st, 'errors': [e[:2] for e in errors]})
                    continue
                evs = []
                for i, e in enumerate(cases):
                    r0 = results[0][i]
                    if isinstance(r0, dict):
                        ctx.violation(f'C03:{e["op"]}:raises', {'event': e, 'result': r0})
                        continue
                    for h in range(len(r0)):
                        vals = [results[p][i][h][0] for p in range(m)]
                        flag = r0[h][1]
                        sq = [results[p][i][h][2] for p in range(m)]
                        exact = expected_exact(e, h)
                        base = dict(BLANK, l=l, f=f, n=e['n'], xs=e['xs'], ys=e['ys'])
                        if exact is not None:
                            evs.append(dict(base, op={'ifswaplist': 'input', 'inputlist': 'input', 'sumlist': 'sumlist'}.get(e['op'], e['op']),
                                            a=(exact if e['op'] in ('ifswaplist', 'inputlist', 'sumlist') else
                                               (e['xs'][h] if h < len(e['xs']) else 0)),
                                            b=(e['ys'][h] if h < len(e['ys']) else 0), res=vals, integral=flag,
                                            src=[e['op'], h]))
                        else:
                            evs.append(dict(base, op='input', a=vals[0], res=vals, integral=flag, src=[e['op'], h]))
                        # the square of the value actually held must be within the product bound
                        if vals[0] * vals[0] // (1 << f) + 2 < (1 << (l - 1)):
                            evs.append(dict(base, op='square-after', a=vals[0], res=sq, integral=False, src=[e['op'], h]))
                    ctx.case((l, f, e['op'], e['a'], e['b'], str(e['xs']), str(e['ys']), e['n']))
                validate(ctx, wd, evs, tag, module='SecFxp', invs=('FlagOK', 'BoundOK'),
                         keyfn=lambda e, inv: f'C03:{e["src"][0]}:{inv}', prop='C03')
        ctx.sample({'event': evs[0]})
        ctx.assumptions += ['one-sided oracle: a more conservative flag than necessary is not a violation']
    finally:
        tlc.rm_workdir(wd)
