"""C30  Bit-level oblivious building blocks are correct for all inputs.

TLC (Bits.tla) defines binary addition, bit decomposition / recomposition, find (default, explicit e, f, cs_f, raw,
non-bit inputs, public and secret needle), unit vectors, trailing zeros and the greatest common power of two.
All bit vectors of bounded length / all values are run through the real functions on party worlds m in {1,3}
(thorough: more) and every party's result is validated.
"""
import itertools
import os
import random

from .. import tlc
from ..secrun import run_batch
from .c01 import validate

BLANK = {'fn': '', 'x': [], 'y': [], 'a': 0, 'b': 0, 'n': 0, 'res': [], 'variant': ''}


def gen_cases(rnd, quick):
    cases = []
    for n in range(0, 4 if quick else 6):
        vecs = list(itertools.product((0, 1), repeat=n))
        pairs = list(itertools.product(vecs, vecs))
        if quick and len(pairs) > 30:
            pairs = rnd.sample(pairs, 30)
        for x, y in pairs:
            cases.append(dict(BLANK, fn='add_bits', x=list(x), y=list(y)))
    for n in range(0, 6 if quick else 9):
        vecs = list(itertools.product((0, 1), repeat=n))
        if quick and len(vecs) > 16:
            vecs = rnd.sample(vecs, 16)
        for x in vecs:
            for a in (0, 1):
                for variant in ('pub', 'sec'):
                    cases.append(dict(BLANK, fn='find', x=list(x), a=a, variant=variant))
                cases.append(dict(BLANK, fn='find_e', x=list(x), a=a, n=-1))
                if n <= 6:
                    cases.append(dict(BLANK, fn='find_f', x=list(x), a=a, variant=rnd.choice(('f', 'cs_f'))))
                cases.append(dict(BLANK, fn='find_raw', x=list(x), a=a))
            cases.append(dict(BLANK, fn='from_bits', x=list(x)))
    for _ in range(10 if quick else 80):       # bits=False: arbitrary inputs
        n = rnd.randint(0, 5)
        x = [rnd.randint(-3, 3) for _ in range(n)]
        cases.append(dict(BLANK, fn='find', x=x, a=rnd.randint(-3, 3), variant='nobits'))
    for n in range(1, 7 if quick else 10):
        for a in range(0, n + 1):
            cases.append(dict(BLANK, fn='unit_vector', a=a, n=n))
    for a in range(-8, 8):
        cases.append(dict(BLANK, fn='to_bits', a=a, n=4))
        cases.append(dict(BLANK, fn='to_bits', a=a, n=2, variant='l2'))
        cases.append(dict(BLANK, fn='trailing_zeros', a=a, n=4))
        for b in range(-8, 8):
            if (a or b) and (not quick or rnd.random() < 0.25):
                cases.append(dict(BLANK, fn='gcp2', a=a, b=b, n=4))
    return cases


async def evaluate(mpc, e, idx, arg):
    secint = mpc.SecInt(4)
    m = len(mpc.parties)

    def inp(v, kk=0):
        return mpc.input(secint(v), senders=(idx + kk) % m)
    fn = e['fn']
    xs = [inp(v, kk) for kk, v in enumerate(e['x'])]
    if fn == 'add_bits':
        ys = [inp(v, kk + 1) for kk, v in enumerate(e['y'])]
        r = mpc.add_bits(xs, ys)
    elif fn == 'from_bits':
        r = mpc.from_bits(xs)
        if isinstance(r, int):
            return [r]
        r = [r]
    elif fn.startswith('find'):
        a = e['a']
        kw = {}
        if e['variant'] == 'sec':
            a = inp(a, 3)
        if e['variant'] == 'nobits':
            kw['bits'] = False
            a = inp(a, 3)
        if fn == 'find_e':
            kw['e'] = e['n']
        elif fn == 'find_f':
            if e['variant'] == 'f':
                kw['f'] = lambda i: 2 ** i
            else:
                kw['cs_f'] = lambda b, i: (b + 1) << i
        elif fn == 'find_raw':
            kw['e'] = None
        r = mpc.find(xs, a, **kw)
        if fn == 'find_raw':
            nf, ix = r
            r = [nf, ix]
        else:
            r = [r]
    elif fn == 'unit_vector':
        r = mpc.unit_vector(inp(e['a']), e['n'])
    elif fn == 'to_bits':
        r = mpc.to_bits(inp(e['a']), e['n']) if e['variant'] == 'l2' else mpc.to_bits(inp(e['a']))
    elif fn == 'trailing_zeros':
        r = mpc.trailing_zeros(inp(e['a']))
    elif fn == 'gcp2':
        r = [mpc.gcp2(inp(e['a']), inp(e['b'], 1))]
    out = []
    for v in r:
        out.append(v if isinstance(v, int) else int(await mpc.output(v)))
    return out


def run(ctx):
    rnd = random.Random(ctx.seed)
    wd = tlc.make_workdir()
    try:
        cases = gen_cases(rnd, ctx.quick)
        worlds = [(1, 0, False), (3, 1, False)] if ctx.quick else [(1, 0, False), (3, 1, False), (3, 1, True), (5, 2, False)]
        for (m, t, no_prss) in worlds:
            tag = f'bitsm{m}t{t}{"n" if no_prss else "p"}'
            st, results, errors = run_batch(cases, evaluate, m, t, seed=ctx.seed + 1, no_prss=no_prss, chunk=25, max_steps=60000000)
            if st != 'done' or any(errors):
                ctx.violation('C30:run:not-complete', {'config': tag, 'status': st, 'errors': sorted({e[0][:80] for e in errors if e})[:3]})
                continue
            evs = []
            for i, e in enumerate(cases):
                r = [results[p][i] for p in range(m)]
                if any(isinstance(x, dict) for x in r):
                    empty = 'empty' if not e['x'] and e['fn'].startswith('find') else 'nonempty'
                    ctx.violation(f'C30:{e["fn"]}:{e["variant"] or "plain"}:raises:{empty}:a={e["a"]}',
                                  {'event': e, 'config': tag, 'result': r[0]})
                    continue
                evs.append(dict(e, res=r))
                ctx.case((e['fn'], tuple(e['x']), tuple(e['y']), e['a'], e['b'], e['n'], e['variant']))
            validate(ctx, wd, evs, tag, module='Bits', invs=('BitsOK', 'TzOK'),
                     keyfn=lambda e, inv: f'C30:{e["fn"]}:{e["variant"] or "plain"}:{inv}', prop='C30')
        ctx.sample({'event': evs[0]})
        ctx.sample({'event': evs[-1]})
        ctx.exhaustive = True
    finally:
        tlc.rm_workdir(wd)
