"""C36  A crashed or disconnected party never makes others output wrong values.

1. TLC: PCSchedCrash (PCSched + one party stopping at any moment, each of its outgoing connections
   delivering an arbitrary prefix of the frames in flight): LabelAgreement, UniqueLabels, ConsumedOnce,
   SurvivorSound, ConsumedWereSent for every crash point and every interleaving; Wire.NoPartialDelivery
   (checked in C10) covers cuts inside a frame.
2. fault enumeration on the real code: for bounded real programs, a reference run is recorded; then for
   every party i and every point of the schedule at which i has bytes in flight, i is crashed with its
   outgoing streams cut at frame boundaries, at header boundaries and inside frames (quick: selected byte
   positions; thorough: every byte), with EOF and with a connection error; the survivors run on to
   quiescence.  Every output a survivor completes must equal the reference output at the same position.
"""
import os
import random

from .. import tlc
from ..sim.world import World, RandomScheduler, ReplayScheduler

LEVEL = 'fault_enumeration'
INVS = ['LabelAgreement', 'UniqueLabels', 'ConsumedOnce', 'SurvivorSound', 'ConsumedWereSent']


def progs():
    async def out(mpc, log):
        await mpc.start()
        secint = mpc.SecInt(8)
        a = mpc.input(secint(mpc.pid + 3))
        for x in a:
            log[mpc.pid].append(await mpc.output(x))
        await mpc.shutdown()

    async def mul2(mpc, log):
        await mpc.start()
        secint = mpc.SecInt(8)
        a = mpc.input(secint(mpc.pid + 2), senders=0)
        b = mpc.input(secint(5), senders=len(mpc.parties) - 1)
        x = a * b
        log[mpc.pid].append(await mpc.output(x))
        y = (x + a) * b
        log[mpc.pid].append(await mpc.output(y))
        log[mpc.pid].append(await mpc.output(y < x))
        await mpc.shutdown()

    async def inp_out(mpc, log):
        await mpc.start()
        secfld = mpc.SecFld(101)
        xs = mpc.input([secfld(7 * mpc.pid + 1), secfld(9)])
        s = mpc.sum([x[0] for x in xs])
        log[mpc.pid].append(int(await mpc.output(s)))
        p = mpc.prod([x[1] for x in xs])
        log[mpc.pid].append(int(await mpc.output(p, receivers=[0, 1])) if mpc.pid < 2 else
                            await mpc.output(p, receivers=[0, 1]))
        t = await mpc.transfer(int(await mpc.output(s + 1)) + mpc.pid)
        log[mpc.pid].append(t)
        await mpc.shutdown()

    async def fxp(mpc, log):
        await mpc.start()
        secfxp = mpc.SecFxp(12, 4)
        a = mpc.input(secfxp(1.5), senders=0)
        b = mpc.input(secfxp(-2.0), senders=1)
        log[mpc.pid].append(await mpc.output(a * b))
        log[mpc.pid].append(await mpc.output(mpc.trunc(a + b, 2)))
        await mpc.shutdown()
    return {'out': out, 'mul2': mul2, 'inp_out': inp_out, 'fxp': fxp}


def reference(prog, m, t, seed, no_prss):
    log = [[] for _ in range(m)]
    w = World(m, t, seed=seed, no_prss=no_prss)
    try:
        w.spawn(prog, log)
        st = w.run(RandomScheduler(seed, 'all'), max_steps=200000)
    finally:
        w.close()
    return st, log, w.trace, w.errors


def cut_positions(n, quick, rnd):
    """numbers of in-flight bytes that still get out"""
    if n == 0:
        return [0]
    pos = {0, n, 1, n - 1, 11, 12, 13, n // 2}
    pos = {p for p in pos if 0 <= p <= n}
    if not quick:
        pos |= set(range(0, n + 1))
    elif n > 14:
        pos |= {rnd.randrange(n) for _ in range(2)}
    return sorted(pos)


def crash_run(prog, m, t, seed, no_prss, trace, upto, victim, cuts, exc, probe=False):
    log = [[] for _ in range(m)]
    w = World(m, t, seed=seed, no_prss=no_prss)
    try:
        w.spawn(prog, log)
        sch = ReplayScheduler(trace[:upto], seed=seed + 1)
        # replay the prefix exactly
        while sch.pos < len(sch.actions):
            acts = w.enabled()
            if not acts:
                if not w.advance_time():
                    break
                continue
            a = sch.pick(w, acts)
            if a[0] == 'run':
                w.step_run(a[1])
            elif a[0] == 'accept':
                w.step_accept(a[1])
            elif a[0] == 'arrive':
                w.step_arrive(a[1], a[2], a[3])
            elif a[0] == 'eof':
                w.step_eof(a[1], a[2])
        inflight = {c.other(victim): len(c.wire[victim]) for key, c in w.net.conns.items() if victim in key}
        if probe:
            return 'probe', log, inflight, w.errors
        w.crash(victim, cuts=cuts, exc=exc)
        st = w.run(RandomScheduler(seed + 2, 'mixed'), max_steps=w.steps + 30000)
    finally:
        w.close()
    return st, log, inflight, w.errors


def run(ctx):
    rnd = random.Random(ctx.seed)
    wd = tlc.make_workdir()
    try:
        for p in (['main_out', 'main_mul2'] if ctx.quick else ['main_out', 'main_mul2', 'main_noawait', 'main_await']):
            cfg = os.path.join(wd, f'crash_{p}.cfg')
            tlc.write_cfg(cfg, spec='CSpec', constants={'M': 3, 'T': 1, 'MainName': f'"{p}"'}, invariants=INVS)
            res = tlc.run_tlc('PCSchedCrash', cfg, workdir=wd, timeout=2400)
            ctx.add_tlc(res, f'PCSchedCrash[{p}]')
            if not res.ok:
                ctx.violation(f'C36:model:{p}:{res.violation}', {'cex_tail': res.cex[-2:]})
    finally:
        tlc.rm_workdir(wd)
    P = progs()
    names = ['out', 'mul2', 'inp_out'] if ctx.quick else ['out', 'mul2', 'inp_out', 'fxp']
    cfgs = [(3, 1, False), (3, 1, True)] if ctx.quick else [(2, 0, False), (3, 1, False), (3, 1, True), (4, 1, False), (5, 2, True)]
    npoints = 0
    for name in names:
        for (m, t, no_prss) in cfgs:
            st, ref, trace, errs = reference(P[name], m, t, ctx.seed, no_prss)
            if st != 'done' or any(errs):
                ctx.violation(f'C36:reference:{name}', {'status': st, 'errors': errs})
                continue
            # points of the schedule after which some party has bytes in flight: after each 'run' step
            points = [k + 1 for k, a in enumerate(trace) if a[0] == 'run']
            if ctx.quick and len(points) > 40:
                points = sorted(rnd.sample(points, 40))
            elif len(points) > 400:
                points = sorted(rnd.sample(points, 400))
            for upto in points:
                victim = trace[upto - 1][1]
                # probe in-flight bytes at this point
                st0, _, inflight, _ = crash_run(P[name], m, t, ctx.seed, no_prss, trace, upto, victim, None, None, probe=True)
                targets = [j for j, n in inflight.items() if n > 0]
                if not targets:
                    continue
                variants = []
                for j in targets:
                    for k in cut_positions(inflight[j], ctx.quick, rnd):
                        cuts = {jj: (k if jj == j else rnd.choice((0, inflight[jj]))) for jj in inflight}
                        variants.append(cuts)
                if ctx.quick and len(variants) > 6:
                    variants = rnd.sample(variants, 6)
                for cuts in variants:
                    for exc in (None, ConnectionResetError('sim: connection reset')):
                        st1, log, _, errs1 = crash_run(P[name], m, t, ctx.seed, no_prss, trace, upto, victim, cuts, exc)
                        npoints += 1
                        ctx.case((name, m, t, no_prss, upto, victim, tuple(sorted(cuts.items())), exc is None))
                        for j in range(m):
                            if j == victim:
                                continue
                            got = log[j]
                            if got != ref[j][:len(got)]:
                                ctx.violation(f'C36:wrong-output:{name}', {
                                    'program': name, 'm': m, 't': t, 'no_prss': no_prss, 'crash_after_step': upto,
                                    'victim': victim, 'cuts': cuts, 'error_close': exc is not None,
                                    'survivor': j, 'outputs': got, 'reference': ref[j]})
            ctx.sample({'program': name, 'm': m, 't': t, 'no_prss': no_prss, 'reference_outputs': ref[0],
                        'crash_points_in_schedule': len(points)})
    ctx.traces += npoints
    ctx.notes['crash_runs'] = npoints
    ctx.notes['rule'] = ('crash point = (program, configuration, schedule position, victim, bytes of each outgoing '
                         'stream that still get out, EOF or error close); non-trivial = victim had bytes in flight')
    ctx.assumptions += ['one party crashes per run', 'a crash delivers a prefix of each outgoing byte stream',
                        'reference outputs are those of the fault-free run (deterministic programs)']
