"""C14  Sharings dealt during protocols have full threshold degree.

1. TLC: ShareProto (every dealing ranges over all coefficient tuples of length t; Consistent) and
   ShamirMC.ViewUniform (a degree-t sharing with t uniform coefficients reveals nothing to t parties).
2. code -> spec: every random_split call made by the runtime while real programs run (input dealing,
   resharing after multiplication, and -- without PRSS -- random values, random bits, conversion masks) is
   recorded with its threshold argument, number of parties, number of secrets, the arguments of every
   secrets.randbelow call made inside it, and the field order; TLC (SharesTrace.DealOK) checks t = runtime
   threshold, m = number of parties, exactly t draws per secret, each over the whole field.  With 64-bit
   fields (default parameters) the payloads a dealer puts on the wire are compared with the marshalled secrets
   it dealt: none may travel in the clear (t >= 1).
"""
import json
import os
import random
import sys

from .. import tlc
from ..programs import CORPUS
from ..sim.world import World, RandomScheduler
from ..rec import parse_frames, limbs
from ..runs import hs_len


class DealRecorder:
    def __init__(self, world):
        self.w = world
        self.events = []
        self.depth = 0
        self.cur = None
        self.plain = [set() for _ in range(world.m)]

    def note_rand(self, party, fn, arg, val):
        if self.cur is not None and fn == 'randbelow':
            self.cur['bounds'].append(arg)
            if '_draws' in self.cur:
                self.cur['_draws'].append(int(val))

    def install(self):
        thresha = sys.modules['mpyc.thresha']
        self.orig = thresha.random_split
        rec = self

        def random_split(field, s, t, m):
            outer = rec.cur
            ev = {'kind': 'deal', 't': t, 'm': m, 'n': len(s), 'bounds': [], 'order': field.order,
                  'party': rec.w.current, 'caller': sys._getframe(1).f_code.co_name}
            rec.cur = ev
            small = field.order < 64 and field.ext_deg == 1
            if small:
                ev['_draws'] = []
                ev['_s'] = [int(a.value if hasattr(a, 'value') else a) % field.order for a in s]
            try:
                r = rec.orig(field, s, t, m)
                if small:
                    ev['_shares'] = [[int(v.value if hasattr(v, 'value') else v) % field.order for v in row] for row in r]
                return r
            finally:
                rec.cur = outer
                rec.events.append(ev)
                try:
                    if field.order > (1 << 40):
                        vals = [a.value if hasattr(a, 'value') else a for a in s]
                        rec.plain[rec.w.current].add(bytes(field.to_bytes(vals)))
                except Exception:
                    pass
        thresha.random_split = random_split

    def remove(self):
        sys.modules['mpyc.thresha'].random_split = self.orig


def run(ctx):
    rnd = random.Random(ctx.seed)
    from .c11 import model
    from .thresha_common import consts
    wd = tlc.make_workdir()
    try:
        model(ctx, wd, 'GF(5)', 3, 1, 'SB1')
        cfg = os.path.join(wd, 'vu.cfg')
        tlc.write_cfg(cfg, constants=consts('GF(7)', 5, 2), invariants=['ViewUniform', 'DegreeT'])
        res = tlc.run_tlc('ShamirMC', cfg, workdir=wd, timeout=1800)
        ctx.add_tlc(res, 'ShamirMC[GF7-5-2]')
        if not res.ok:
            ctx.violation(f'C14:model:{res.violation}', {'cex': res.cex[-1:]})
        names = ['mul2', 'prss', 'conv', 'await_fork', 'random_ops', 'fxp'] if ctx.quick else list(CORPUS)
        cfgs = [(3, 1), (5, 2)] if ctx.quick else [(3, 1), (4, 1), (5, 2), (5, 1), (7, 3)]
        groups = {}
        for name in names:
            for (m, t) in cfgs:
                for no_prss in (False, True):
                    w = World(m, t, seed=ctx.seed + 3, no_prss=no_prss)
                    rec = DealRecorder(w)
                    w.observers.append(rec)
                    rec.install()
                    try:
                        w.spawn(CORPUS[name], ctx.seed + 11)
                        st = w.run(RandomScheduler(ctx.seed + m, 'mixed'), max_steps=600000)
                    finally:
                        rec.remove()
                        w.close()
                    ctx.case((name, m, t, no_prss))
                    if st != 'done' or any(w.errors):
                        ctx.violation(f'C14:run:{name}:not-complete', {'m': m, 't': t, 'no_prss': no_prss,
                                                                       'status': st, 'errors': w.errors})
                        continue
                    # payloads on the wire per sending party
                    sentpl = [set() for _ in range(m)]
                    for (c, s), conn in w.net.conns.items():
                        for src, dst in ((c, s), (s, c)):
                            data = bytes(conn.sent[src])
                            i = hs_len(w, src, dst)
                            import struct
                            while len(data) - i >= 12:
                                pc, size = struct.unpack_from('<qI', data, i)
                                sentpl[src].add(data[i + 12:i + 12 + size])
                                i += 12 + size
                    for ev in rec.events:
                        for k_ in ('_draws', '_s', '_shares'):
                            ev.pop(k_, None)
                        big = ev['order'] > (1 << 40)
                        ev['leak'] = 0
                        if big:
                            ev['leak'] = len(rec.plain[ev['party']] & sentpl[ev['party']])
                        ev['order'] = limbs(ev['order'] - (1 << 63)) if ev['order'] < (1 << 65) else [-1, -1, -1]
                        ev['bounds'] = [limbs(b - (1 << 63)) if b < (1 << 65) else [-1, -1, -2] for b in ev['bounds']]
                        ev['src'] = [name, no_prss, ev.pop('caller')]
                        ev.update({'shares': [], 'val': 0})
                        groups.setdefault((m, t), []).append(ev)
        # ---- fresh polynomials: dealing calls over small prime fields, shares recomputed by TLC from the draws
        async def small_prog(mpc, seed):
            await mpc.start()
            r = random.Random(seed)
            m_ = len(mpc.parties)
            for p in (7, 11, 13):
                if p <= m_:
                    continue
                secfld = mpc.SecFld(p)
                x = mpc.input([secfld(r.randrange(p)) for _ in range(4)], senders=r.randrange(m_))
                y = mpc.input([secfld(r.randrange(p)) for _ in range(4)])
                z = mpc.schur_prod(x, y[0])
                w_ = mpc.matrix_prod([x[:2], x[2:]], [z[:2], z[2:]])
                bits = mpc.random_bits(secfld, 3)
                await mpc.output(z + w_[0] + w_[1] + bits)
            await mpc.shutdown()
        from .thresha_common import validate_calls, failing_call
        nfresh = 0
        for (m, t) in ([(3, 1), (5, 2)] if ctx.quick else [(3, 1), (4, 1), (5, 2), (6, 2), (7, 3)]):
            for no_prss in (False, True):
                w = World(m, t, seed=ctx.seed + 5, no_prss=no_prss)
                rec = DealRecorder(w)
                w.observers.append(rec)
                rec.install()
                try:
                    w.spawn(small_prog, ctx.seed + 13)
                    st = w.run(RandomScheduler(ctx.seed + m, 'all'), max_steps=2000000)
                finally:
                    rec.remove()
                    w.close()
                if st != 'done' or any(w.errors):
                    ctx.violation('C14:run:small-fields:not-complete', {'m': m, 't': t, 'no_prss': no_prss, 'status': st, 'errors': w.errors})
                    continue
                byfield = {}
                for ev in rec.events:
                    if '_draws' not in ev or ev['t'] == 0:
                        continue
                    tt = ev['t']
                    blocks = [ev['_draws'][h * tt:(h + 1) * tt] for h in range(ev['n'])]
                    call = {'kind': 'split', 'm': ev['m'], 's': ev['_s'], 'c': blocks, 'shares': ev.get('_shares', []),
                            'bounds': [int(b) for b in ev['bounds']], 'pts': [], 'xr': [], 'val': [], 'caller': ev['caller']}
                    byfield.setdefault(ev['order'], []).append(call)
                for q, calls in sorted(byfield.items()):
                    fname = f'GF({q})'
                    res = validate_calls(ctx, wd, 'MCShamirTrace', calls, fname, m, t, ['SplitOK', 'PatternOK'], f'fresh_{q}_{m}_{t}_{int(no_prss)}')
                    ctx.traces += len(calls)
                    nfresh += len(calls)
                    if not res.ok:
                        k_, call = failing_call(res, calls)
                        ctx.violation(f'C14:fresh:{res.violation}:{(call or {}).get("caller", "?")}', {'field': fname, 'm': m, 't': t, 'no_prss': no_prss, 'call': call})
        ctx.notes['fresh_polynomial_calls_validated'] = nfresh
        if nfresh == 0:
            ctx.machinery('vacuous: no small-field dealing call recorded')
        ndeal = 0
        for (m, t), evs in sorted(groups.items()):
            tf = os.path.join(wd, f'deal_{m}_{t}.json')
            with open(tf, 'w') as f:
                json.dump(evs, f)
            cfg = os.path.join(wd, f'deal_{m}_{t}.cfg')
            tlc.write_cfg(cfg, spec='TSpec', constants={'P': 7, 'D': 1, 'MODC': '<- M1', 'NM': m, 'NT': t},
                          invariants=['DealOK'])
            res = tlc.run_tlc('MCSharesTrace', cfg, workdir=wd, env={'TRACE_FILE': tf}, timeout=1800)
            ctx.add_tlc(res, f'SharesTrace.DealOK[m={m},t={t}]')
            ctx.traces += len(evs)
            ndeal += len(evs)
            if not res.ok:
                import re
                mk = re.search(r'\bk = (\d+)', res.stdout)
                ev = evs[int(mk.group(1)) - 1] if mk else None
                ctx.violation(f'C14:trace:{res.violation}', {'m': m, 't': t, 'event': ev})
            callers = sorted({e['src'][2] for e in evs})
            ctx.sample({'m': m, 't': t, 'dealing_call_sites': callers, 'event': {k: v for k, v in evs[0].items() if k in ('t', 'm', 'n', 'src', 'leak')}})
        ctx.notes['dealing_calls_validated'] = ndeal
        if ndeal == 0:
            ctx.machinery('vacuous: no dealing call recorded')
        ctx.assumptions += ['secrets.randbelow is uniform', 'clear-text comparison only for fields > 2^40 '
                            '(in tiny fields a share equals the secret with probability 1/q)']
    finally:
        tlc.rm_workdir(wd)
