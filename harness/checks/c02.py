"""C02  Secure fixed-point arithmetic stays within its rounding bounds.

TLC (SecFxp.tla) states every documented interval in exact integer arithmetic on scaled values.  For fixed-point
types with l close to 2f ((8,4), (10,5), (12,6), (6,3)) all/sampled pairs of representable inputs with results in
range are evaluated on real party worlds (m in {1,3,4}, PRSS on/off; thorough: m up to 7) through + - neg
comparisons, products (secure, public int, public float), division, reciprocal, trunc, powers and sin/cos
(reference enclosure computed by the harness with exact rationals); TLC checks every party's opened result
against the interval (BoundOK) and agreement between parties.  Types with l > 2f+1 are exercised too.
"""
import json
import math
import os
import random
from fractions import Fraction

from .. import tlc
from ..secrun import run_batch, configs
from .c01 import validate

BLANK = {'op': '', 'a': 0, 'b': 0, 'n': 0, 'cn': 0, 'cd': 1, 'lo': 0, 'hi': 0, 'l': 0, 'f': 0, 'res': [],
         'integral': False, 'xs': [], 'ys': []}
TYPES_Q = [(8, 4), (10, 5), (6, 3)]
TYPES_T = [(8, 4), (10, 5), (12, 6), (6, 3), (9, 4), (12, 5)]      # (wider types overflow TLC integers in the division bound)
TYPES_WIDE = [(12, 4), (14, 6)]       # l > 2f + 1


def inr(v, l):
    return -(1 << (l - 1)) <= v < (1 << (l - 1))


def sin_enclosure(x, f, fn):
    """rational enclosure (scaled by 2^f) of sin/cos at the rational x, from math with a generous margin"""
    v = math.sin(x) if fn == 'sin' else math.cos(x)
    s = 1 << f
    return math.floor((v - 1e-9) * s), math.ceil((v + 1e-9) * s)


def gen_cases(l, f, rnd, quick, wide=False):
    s = 1 << f
    lo, hi = -(1 << (l - 1)), (1 << (l - 1)) - 1
    cases = []
    n = 40 if quick else 150
    lim = hi if not wide else (1 << (2 * f - 1))
    vals = sorted({lo if not wide else -lim, -lim // 2, -s, -1, 0, 1, s, s + 1, lim // 2, lim if wide else hi} |
                  {rnd.randint(-lim, lim) for _ in range(8)})
    pairs = [(a, b) for a in vals for b in vals] + [(rnd.randint(-lim, lim), rnd.randint(-lim, lim)) for _ in range(n)]
    pairs = rnd.sample(pairs, min(len(pairs), 60 if quick else 260))
    for a, b in pairs:
        base = dict(BLANK, a=a, b=b, l=l, f=f)
        if inr(a + b, l):
            cases.append(dict(base, op='add'))
        if inr(a - b, l):
            cases.append(dict(base, op='sub'))
        for op in ('lt', 'le', 'eq', 'ge', 'max', 'min'):
            if rnd.random() < 0.4:
                cases.append(dict(base, op=op))
        if inr((a * b) // s + 1, l) and inr((a * b) // s - 1, l):
            cases.append(dict(base, op='mul'))
        if b != 0 and inr((a * s) // b + 17 * (1 + abs(a) // s), l + 1) and abs(a) * 1 <= lim:
            # |x/y| must fit, with slack for the error bound
            if abs((a * s) // b) + 16 * (1 + abs(a) // s) < hi:
                cases.append(dict(base, op='div'))
    for a in vals + [rnd.randint(-lim, lim) for _ in range(10 if quick else 100)]:
        base = dict(BLANK, a=a, l=l, f=f)
        if inr(-a, l):
            cases.append(dict(base, op='neg'))
            cases.append(dict(base, op='abs'))
        for bi in (-3, 2, 5):
            if inr(a * bi, l):
                cases.append(dict(base, op='mulint', b=bi * s))
        for c in (0.5, -1.25, 0.375, 3.0, 2 ** -f):
            fr = Fraction(c)
            if abs(a * fr) + 2 * (1 + abs(a) // s) < hi:
                cases.append(dict(base, op='mulfloat', cn=fr.numerator, cd=fr.denominator))
        if a != 0 and abs((s * s) // a) + 16 * 2 < hi:
            cases.append(dict(base, op='rec', a=s, b=a))
        for nn in (1, 2, f):
            if nn <= f:
                cases.append(dict(base, op='trunc', n=nn))
        for nn in (2, 3):
            if abs(a) ** nn < (hi - nn * (s + abs(a)) ** (nn - 1) // s ** (nn - 2)) * s ** (nn - 1) and abs(a) < 4 * s:
                cases.append(dict(base, op='pow', n=nn))
        if abs(a) <= 4 * s and f >= 4 and not wide:
            for fn in ('sin', 'cos'):
                lo_, hi_ = sin_enclosure(a / s, f, fn)
                cases.append(dict(base, op=fn, lo=lo_, hi=hi_))
    return cases


async def evaluate(mpc, e, idx, arg):
    secfxp = mpc.SecFxp(e['l'], e['f'])
    m = len(mpc.parties)
    s = 1 << e['f']

    def inp(v, kk=0):
        return mpc.input(secfxp(v / s), senders=(idx + kk) % m)
    op = e['op']
    a = inp(e['a'])
    if op in ('add', 'sub', 'lt', 'le', 'eq', 'ge', 'max', 'min', 'mul', 'div'):
        b = inp(e['b'], 1)
        r = {'add': lambda: a + b, 'sub': lambda: a - b, 'lt': lambda: a < b, 'le': lambda: a <= b, 'eq': lambda: a == b,
             'ge': lambda: a >= b, 'max': lambda: mpc.max(a, b), 'min': lambda: mpc.min(a, b), 'mul': lambda: a * b,
             'div': lambda: a / b}[op]()
    elif op == 'neg':
        r = -a
    elif op == 'abs':
        r = abs(a)
    elif op == 'mulint':
        r = a * (e['b'] // s)
    elif op == 'mulfloat':
        r = a * (e['cn'] / e['cd'])
    elif op == 'rec':
        b = inp(e['b'], 1)
        r = 1 / b
    elif op == 'trunc':
        r = mpc.trunc(a, e['n'])
        v = await mpc.output(r, raw=True)
        return [int(v.signed_()) if hasattr(v, 'signed_') else int(v), bool(r.integral), int(await mpc.output(a, raw=True))]
    elif op == 'pow':
        r = a ** e['n']
    elif op == 'sin':
        r = mpc.sin(a)
    elif op == 'cos':
        r = mpc.cos(a)
    v = await mpc.output(r, raw=True)
    # the operand itself must be unchanged by the operation (secure objects are immutable values)
    return [int(v), bool(r.integral), int(await mpc.output(a, raw=True))]


def collect(ctx, cases, m, t, no_prss, tag, evaluator=evaluate, prop='C02'):
    st, results, errors = run_batch(cases, evaluator, m, t, seed=ctx.seed + 2, no_prss=no_prss, chunk=30)
    if st != 'done' or any(errors):
        ctx.violation(f'{prop}:run:not-complete', {'config': tag, 'status': st, 'errors': [e[:2] for e in errors]})
        return []
    evs = []
    for i, e in enumerate(cases):
        r = [results[p][i] for p in range(m)]
        if any(isinstance(x, dict) for x in r):
            ctx.violation(f'{prop}:{e["op"]}:raises', {'event': e, 'config': tag, 'result': r})
            continue
        ev = dict(e)
        ev['res'] = [x[0] for x in r]
        ev['integral'] = bool(r[0][1])
        evs.append(ev)
        if prop == 'C02' and e['op'] != 'rec' and all(len(x) > 2 for x in r):
            evs.append(dict(e, op='input', res=[x[2] for x in r], integral=False, after=e['op']))
        ctx.case((e['l'], e['f'], e['op'], e['a'], e['b'], e['n'], e['cn'], e['cd']))
    return evs


def key_c02(e, inv):
    wide = e['l'] > 2 * e['f'] + 1
    if e.get('after'):
        return f'C02:{e["after"]}:operand-changed-by-operation'
    return f'C02:{e["op"]}:{inv}' + (':l>2f+1' if wide else '')


def run(ctx):
    rnd = random.Random(ctx.seed)
    wd = tlc.make_workdir()
    try:
        cfgs = configs(ctx.quick, ctx.seed)
        for ti, (l, f) in enumerate(TYPES_Q if ctx.quick else TYPES_T):
            cases = gen_cases(l, f, rnd, ctx.quick)
            # thorough: every type on four of the ten party configurations (rotating), so that all of them are used
            for (m, t, no_prss) in (cfgs[:3] if ctx.quick else [cfgs[(ti + 3 * j) % len(cfgs)] for j in range(4)]):
                tag = f'fxp{l}_{f}m{m}t{t}{"n" if no_prss else "p"}'
                evs = collect(ctx, cases, m, t, no_prss, tag)
                if evs:
                    validate(ctx, wd, evs, tag, module='SecFxp', invs=('BoundOK', 'AgreeOK'), keyfn=key_c02, prop='C02')
        for (l, f) in TYPES_WIDE[:1 if ctx.quick else 2]:
            cases = gen_cases(l, f, rnd, True, wide=True)
            tag = f'fxp{l}_{f}m3t1p'
            evs = collect(ctx, cases, 3, 1, False, tag)
            if evs:
                validate(ctx, wd, evs, tag, module='SecFxp', invs=('BoundOK', 'AgreeOK'), keyfn=key_c02, prop='C02')
        ctx.sample({'event': evs[0] if evs else None})
        ctx.assumptions += ['sin/cos: the reference enclosure comes from the harness (math.sin/cos +- 1e-9), TLA+ has no '
                            'transcendental functions', 'types up to 16 bits so that all products fit TLC integers']
    finally:
        tlc.rm_workdir(wd)
