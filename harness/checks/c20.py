"""C20  Finite field elements obey the field laws through every operator.

1. TLC: FieldMachine over each configured field: Reduced and Laws (inverse pairs, commutativity, pow = repeated
   multiplication, shift round trip) in every reachable state, i.e. for every element; Fields.FieldAxiomsOn.
2. spec -> code: the complete state graph (every element x every operator x every operand) is dumped and every
   edge is executed on the real finfields classes in every way the operator can be invoked: binary, reflected,
   in-place; other operand a field element, an int (prime fields: also ints outside 0..p-1 and negative), or a
   polynomial; results must be elements of the same field type with the specified (reduced) value.
   Random walks on larger prime fields (p < 2^15) follow TLC-simulated behaviours.
"""
import os
import random
import sys

from .. import tlc
from ..dot import Graph, parse_action

# name -> (P, D, MODC def, modulus int)
FIELDS_Q = [('GF(2)', 2, 1, 'M1', 0), ('GF(3)', 3, 1, 'M1', 0), ('GF(7)', 7, 1, 'M1', 0), ('GF(2^2)', 2, 2, 'M4', 7),
            ('GF(2^3)', 2, 3, 'M8', 11), ('GF(3^2)', 3, 2, 'M9', 10)]
FIELDS_T = FIELDS_Q + [('GF(5)', 5, 1, 'M1', 0), ('GF(11)', 11, 1, 'M1', 0), ('GF(2^4)', 2, 4, 'M16', 19),
                       ('GF(3^3)', 3, 3, 'M27', 34), ('GF(5^2)', 5, 2, 'M25', 27), ('GF(19)', 19, 1, 'M1', 0)]


def load():
    from ..sim.world import load_mpyc
    load_mpyc()
    return sys.modules['mpyc.finfields'], sys.modules['mpyc.gfpx']


def make_field(ff, gfpx, P, D, modint):
    if D == 1:
        return ff.GF(P)
    return ff.GF(gfpx.GFpX(P)(modint))


def kind_of(P, D):
    return 'prime' if D == 1 else ('binary' if P == 2 else 'oddext')


def ival(x):
    return int(x.value)


def variants(F, gfpx, P, D, op, a, b):
    """yield (variant name, thunk) computing the result element (or bool for eq) on the real field"""
    def el(v):
        return F(v)
    others = [('elem', lambda: F(b)), ('int', lambda: b)]
    if D == 1:
        others += [('int+p', lambda: b + 3 * P), ('int-p', lambda: b - 2 * P)]
    else:
        others += [('poly', lambda: gfpx.GFpX(P)(b))]
    import operator as o
    binops = {'add': (o.add, o.iadd), 'sub': (o.sub, o.isub), 'mul': (o.mul, o.imul), 'div': (o.truediv, o.itruediv)}
    if op in binops:
        f, fi = binops[op]
        for nm, mk in others:
            if op == 'div' and nm in ('int+p', 'int-p', 'int', 'poly') and D == 1 and nm != 'int':
                pass
            yield nm, (lambda mk=mk: f(el(a), mk()))
            yield nm + ':inplace', (lambda mk=mk: fi(el(a), mk()))
        if op in ('add', 'mul'):
            for nm, mk in others[1:]:
                yield nm + ':reflected', (lambda mk=mk: f(mk(), el(a)))
    elif op == 'rsub':
        yield 'elem', lambda: F(b) - el(a)
        for nm, mk in others[1:]:
            yield nm + ':reflected', (lambda mk=mk: mk() - el(a))
    elif op == 'rdiv':
        yield 'elem', lambda: F(b) / el(a)
        for nm, mk in others[1:]:
            yield nm + ':reflected', (lambda mk=mk: mk() / el(a))
    elif op == 'neg':
        yield 'neg', lambda: -el(a)
        yield 'pos', lambda: -(-(-(+el(a))))
    elif op == 'inv':
        yield 'reciprocal', lambda: el(a).reciprocal()
        yield '1/x', lambda: 1 / el(a)
        yield 'pow-1', lambda: el(a) ** -1
    elif op == 'pow':
        yield 'pow', lambda: el(a) ** b
    elif op == 'npow':
        yield 'npow', lambda: el(a) ** (-b)
    elif op == 'lsh':
        yield 'lshift', lambda: el(a) << b
        yield 'lshift:inplace', lambda: o.ilshift(el(a), b)
    elif op == 'rsh':
        yield 'rshift', lambda: el(a) >> b
        yield 'rshift:inplace', lambda: o.irshift(el(a), b)
    elif op == 'eq':
        yield 'elem', lambda: F(1 if el(a) == F(b) else 0)
        yield 'int', lambda: F(1 if el(a) == b else 0)
        yield 'ne', lambda: F(0 if el(a) != F(b) else 1)
    elif op == 'set':
        yield 'construct', lambda: F(b)
        if D == 1:
            yield 'construct+p', lambda: F(b + 5 * P)
            yield 'construct-p', lambda: F(b - P)


def run(ctx):
    ff, gfpx = load()
    fields = FIELDS_Q if ctx.quick else FIELDS_T
    wd = tlc.make_workdir()
    try:
        for (name, P, D, mod, modint) in fields:
            Q = P ** D
            F = make_field(ff, gfpx, P, D, modint)
            if D > 1 and int(F.modulus) != modint:
                ctx.machinery(f'modulus mismatch for {name}')
            tag = name.replace('(', '').replace(')', '').replace('^', 'e')
            cfg = os.path.join(wd, f'fm_{tag}.cfg')
            tlc.write_cfg(cfg, constants={'P': P, 'D': D, 'MODC': f'<- {mod}', 'MaxPow': 4, 'MaxShift': 4},
                          invariants=['Reduced', 'Laws'])
            dump = os.path.join(wd, f'fm_{tag}')
            res = tlc.run_tlc('MCFieldMachine', cfg, workdir=wd, dump=dump, timeout=1800)
            ctx.add_tlc(res, f'FieldMachine[{name}]')
            if not res.ok:
                ctx.violation(f'C20:model:{res.violation}', {'field': name, 'cex': res.cex[-1:]})
                continue
            g = Graph(dump + '.dot')
            if len(g.raw) != Q:
                ctx.machinery(f'{name}: graph has {len(g.raw)} states, expected {Q}')
            fk = kind_of(P, D)
            nedge = 0
            for (src, dst, act) in g.edges:
                nm, args = parse_action(act)
                op, b = args
                a = g.state(src)['acc']
                exp = g.state(dst)['acc']
                for vname, thunk in variants(F, gfpx, P, D, op, a, b):
                    ctx.evaluations += 1
                    try:
                        r = thunk()
                        ok = type(r) is F and ival(r) == exp and 0 <= ival(r) < Q
                        got = (type(r).__name__, ival(r)) if isinstance(r, ff.FiniteFieldElement) else repr(r)
                    except Exception as exc:
                        ok, got = False, repr(exc)
                    if not ok:
                        ctx.violation(f'C20:{fk}:{op}:{vname}', {'field': name, 'acc': a, 'op': op, 'operand': b,
                                                                'variant': vname, 'expected': exp, 'got': got})
                nedge += 1
                ctx.distinct.add((name, a, op, b))
            ctx.traces += nedge
            ctx.sample({'field': name, 'edges': nedge, 'example': [g.state(g.edges[-1][0])['acc'], g.edges[-1][2],
                                                                   g.state(g.edges[-1][1])['acc']]})
        # larger prime fields: TLC-simulated walks
        for P in ([251, 32749] if ctx.quick else [251, 503, 4093, 32719, 32749]):
            F = ff.GF(P)
            cfg = os.path.join(wd, f'fm_p{P}.cfg')
            tlc.write_cfg(cfg, constants={'P': P, 'D': 1, 'MODC': '<- M1', 'MaxPow': 4, 'MaxShift': 4},
                          invariants=['Reduced'])
            d = os.path.join(wd, f'sim_{P}')
            os.makedirs(d, exist_ok=True)
            res = tlc.run_tlc('MCFieldMachine', cfg, workdir=wd, simulate=f'file={d}/tr,num={20 if ctx.quick else 100}',
                              depth=40, workers=1, seed=ctx.seed + P, timeout=900)
            ctx.add_tlc(res, f'FieldMachine-simulate[GF({P})]')
            import re
            for fn in sorted(os.listdir(d)):
                txt = open(os.path.join(d, fn)).read()
                steps = re.findall(r'\\\* <Do\("(\w+)",(\d+)\) line[^\n]*\n(?:STATE_\d+ ==\s*)?\s*(?:/\\ )?acc = (\d+)', txt)
                a = 0
                for op, b, exp in steps:
                    b, exp = int(b), int(exp)
                    for vname, thunk in variants(F, gfpx, P, 1, op, a, b):
                        ctx.evaluations += 1
                        try:
                            r = thunk()
                            ok = type(r) is F and ival(r) == exp
                            got = ival(r) if ok or isinstance(r, ff.FiniteFieldElement) else repr(r)
                        except Exception as exc:
                            ok, got = False, repr(exc)
                        if not ok:
                            ctx.violation(f'C20:prime:{op}:{vname}', {'field': f'GF({P})', 'acc': a, 'op': op, 'operand': b,
                                                                      'variant': vname, 'expected': exp, 'got': got})
                    a = exp
                    ctx.distinct.add((P, op, b, exp))
                ctx.traces += 1
                os.unlink(os.path.join(d, fn))
        ctx.exhaustive = True
        ctx.assumptions += ['exhaustive for the listed fields with q <= 27; primes < 2^15 by simulated walks',
                            'an int n mixes in as the element with integer representation n (prime fields: n mod p)']
    finally:
        tlc.rm_workdir(wd)
