"""C07  Input, output and transfer reach exactly the designated parties.

1. TLC: RoutingMC (every senders/receivers pair and every dict graph on 3 (thorough: 4) parties: the local
   views of whom to send to / expect from, as transfer() computes them, match the graph pairwise) and
   ShareProto.OutputsRight (every receiver subset and threshold t..2t obtains the value).
2. code -> spec: every routing configuration for m <= 4 (all sender/receiver subsets, int forms, pair lists,
   complete and partial dicts; input by every sender subset; output to every receiver subset with thresholds
   t..2t and three secure types, single and list) and sampled ones for m = 5..7 is run on a real world with
   distinct picklable payloads; TLC (RoutingTrace.RoutingOK) checks every party's result against Routing.tla.
"""
import json
import os
import random

from .. import tlc
from ..routing import specs, run_spec

PROP = 'C07'
INVS = ['RoutingOK']


def classify(ev):
    """key identifying the failing call class (for known findings)"""
    import ast
    kind = ev['kind']
    raised = any(r == [-2] for r in ev['res'])
    errs = sorted({e[0].split('(')[0] for e in ev['errors'] if e})
    if kind == 'transfer':
        spec = ev['spec']
        if 'sender_receivers' in spec:
            form = 'dict' if "'sender_receivers': {" in spec else 'pairs'
            if form == 'dict':
                keys = {a for a, b in ev['arcs']}
                # partial: some party is not a key of the dict
                form = 'dict'
        else:
            form = 'sr-int' if ev['sint'] else 'sr'
        return f'{PROP}:transfer:{form}:' + ('raises:' + '+'.join(errs) if raised else 'wrong-result')
    return f'{PROP}:{kind}:' + ('raises:' + '+'.join(errs) if raised else 'wrong-result')


def validate(ctx, wd, evs, tag, invs, classify_fn):
    tf = os.path.join(wd, f'rt_{tag}.json')
    with open(tf, 'w') as f:
        json.dump(evs, f, default=list)
    cfg = os.path.join(wd, f'rt_{tag}.cfg')
    tlc.write_cfg(cfg, spec='TSpec', invariants=invs)
    res = tlc.run_tlc('RoutingTrace', cfg, workdir=wd, env={'TRACE_FILE': tf}, timeout=1800, cont=True)
    ctx.add_tlc(res, f'RoutingTrace[{tag}]')
    ctx.traces += len(evs)
    if res.generated < len(evs):
        raise tlc.TLCError(f'not all events were evaluated by TLC: {res.generated} < {len(evs)}')
    if not res.ok and not res.all_violations:
        raise tlc.TLCError('RoutingTrace failed without listing violations:\n' + res.stdout[-2000:])
    for inv, k in res.all_violations:
        ev = evs[k - 1]
        ctx.violation(classify_fn(ev, inv), {'invariant': inv, 'm': ev['m'], 't': ev['t'], 'spec': ev['spec'],
                                            'res': ev['res'], 'errors': ev['errors'], 'sent': ev['sent'],
                                            'extra': ev['extra']})


def world_cfgs(ctx):
    return [(2, 0), (3, 1), (4, 1)] if ctx.quick else [(2, 0), (3, 0), (3, 1), (4, 1), (5, 2), (6, 2), (7, 3)]


def collect(ctx, kinds, rnd):
    allev = []
    for (m, t) in world_cfgs(ctx):
        sp = [s for s in specs(m, t, rnd, ctx.quick) if s['kind'] in kinds]
        cap = (90 if ctx.quick else 100000) if m <= 4 else 150
        if len(sp) > cap:
            sp = rnd.sample(sp, cap)
        for k, s in enumerate(sp):
            ev = run_spec(s, m, t, ctx.seed + k, no_prss=(k % 3 == 0))
            ctx.case((m, t, ev['spec']))
            allev.append(ev)
    return allev


def run(ctx):
    rnd = random.Random(ctx.seed)
    wd = tlc.make_workdir()
    try:
        cfg = os.path.join(wd, 'rmc.cfg')
        tlc.write_cfg(cfg, spec='GSpec', constants={'NP': 3}, invariants=['ViewsMatchGraph', 'Matched'])
        res = tlc.run_tlc('RoutingMC', cfg, workdir=wd, timeout=1800)
        ctx.add_tlc(res, 'RoutingMC[NP=3]')
        if not res.ok:
            ctx.violation('C07:model:' + str(res.violation), {'cex': res.cex[-1:]})
        # (NP = 4 has 17 * 17^4 dict graphs: beyond TLC's set-size limit; the graph rules do not depend on NP)
        from .c11 import model
        model(ctx, wd, 'GF(5)', 3, 1, 'SB1')
        evs = collect(ctx, ('transfer', 'input', 'output'), rnd)
        validate(ctx, wd, evs, 'all', INVS, lambda ev, inv: classify(ev))
        for e in evs[:: max(1, len(evs) // 4)]:
            ctx.sample({k: e[k] for k in ('kind', 'm', 'spec', 'res')}, cap=5)
        ctx.assumptions += ['payloads are compared by equality and type with the sender\'s object',
                            '"nothing" for a non-receiver is None (scalar forms) or an empty list (list forms of transfer)']
    finally:
        tlc.rm_workdir(wd)
