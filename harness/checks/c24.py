"""C24  Irreducibility tests and irreducible-modulus search are correct.

TLC (PolyTrace over Poly.tla): irreducible by definition (degree >= 1 and no monic factor of degree 1..deg-1 among
all lower-degree polynomials).  For all polynomials of bounded degree over p in {2, 3, 5, 7} (p = 2: both
representations) the real is_irreducible, next_irreducible (documented contract: next monic irreducible in the
integer order), find_irreducible(p, d) and the acceptance of a modulus by GF() are recorded and checked.
"""
from .. import tlc
from . import c23

INVS = ['IrrOK', 'NextIrrOK', 'FindIrrOK', 'GFAcceptOK']


def run(ctx):
    wd = tlc.make_workdir()
    try:
        for (p, deg) in ([(2, 5), (3, 3), (5, 2), (7, 2)] if ctx.quick else [(2, 8), (3, 4), (5, 3), (7, 2), (11, 2)]):
            c23.poly_run(ctx, wd, p, deg, 0, 'irr', INVS, 'C24')
        ctx.assumptions += ['degrees bounded as listed']
    finally:
        tlc.rm_workdir(wd)
