"""C13  Any t Shamir shares reveal nothing about the secret.

1. TLC (ShamirMC.ViewUniform): for every configured field, (m, t) with t >= 1, every secret and every coalition
   of at most t parties, every possible view is produced by exactly Q^(t-|C|) coefficient tuples: the view
   distribution is uniform, hence identical for all secrets (exact, exhaustive over the dealer randomness).
2. binding: (a) the real random_split *is* Split on these fields: it is run with secrets.randbelow scripted to
   every coefficient tuple and TLC checks every recorded share vector (SplitOK); (b) call pattern: for every
   call the recorded randbelow arguments must be exactly t draws per secret, each with bound = field order
   (PatternOK), so that the coefficient tuple is uniform over Elems^t given a uniform randbelow.
"""
from . import c12


def run(ctx):
    c12.run(ctx, prop='C13', invariants=('ViewUniform', 'DegreeT'), trace_invs=('SplitOK', 'PatternOK'), neg=False)
    ctx.assumptions += ['secrets.randbelow(n) is uniform on range(n) and independent across calls']
