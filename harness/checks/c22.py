"""C22  Field elements survive serialisation.

TLC (SerFuncs): fixed-width little-endian encoding specified as byte sequences.  For every element (as a
one-element list), the empty list and random lists of each configured field the real to_bytes / from_bytes
results are recorded: TLC checks bytes = Encode(vals, width), 256^width >= q, decoded = vals.  Pickling every
element must give an equal element of the same type; the signed / unsigned integer views must be the specified
representatives.
"""
from .. import tlc
from . import c21

FIELDS_Q = [(2, 1), (7, 1), (251, 1), (257, 1), (2, 3), (2, 8), (3, 2), (3, 5), (17, 2), (7, 3)]   # orders around powers of 256 included
FIELDS_T = FIELDS_Q + [(3, 1), (11, 1), (101, 1), (509, 1), (1021, 1), (2, 2), (2, 4), (2, 9), (5, 2), (5, 3), (7, 2), (3, 6)]
INVS = ['BytesOK', 'PickleOK', 'IntOK']


def run(ctx):
    wd = tlc.make_workdir()
    try:
        for (p, d) in (FIELDS_Q if ctx.quick else FIELDS_T):
            c21.field_run(ctx, wd, p, d, 'ser', INVS, 'C22', module='SerFuncs')
        ctx.assumptions += ['fields of order <= 1100 exhaustively (larger ones sampled); 64-bit fields are not decided by TLC']
    finally:
        tlc.rm_workdir(wd)
