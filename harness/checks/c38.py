"""C38  Secure polynomial arithmetic agrees with plain polynomial arithmetic.

The specification is Poly.tla (C23): polynomials over GF(p) from first principles; PolyTrace.tla validates recorded
results.  In the NumPy side venv, secure polynomials (mpyc.secpols.secpoly) are created on simulated party worlds from
coefficient arrays padded with a varying number of leading zero coefficients (the public length bound differs from the
secret degree) or received through mpc.input; every operator and method is applied and the opened result is validated by
TLC: + - * neg by value, comparisons by the integer order of the encodings, divmod // % by a = q b + r with deg r < deg b,
gcd / gcdext by the Bezout relation and monic common divisor, invert, powmod (also negative exponents), **, << >>,
evaluation at public and secret points, degree, monic, reverse, truncate, [], copy, if_else, is_irreducible against
irreducibility by trial division.  LenPublicOK: the length of every result share depends only on the operands'
lengths and public arguments, never on their values.
"""
import json
import os
import random

from .. import tlc
from .. import npchild

NEEDS = 'numpy side venv'
INVS = ['RingOK', 'DivModOK', 'GcdOK', 'InvertOK', 'PowModOK', 'IrrOK', 'SecPolOK', 'LenPublicOK']
BLANK = {'fn': '', 'a': 0, 'b': 0, 'n': 0, 'r1': 0, 'r2': 0, 'r3': 0, 'r4': 0, 'exc': '', 'rep': 'sec', 'lens': []}
# (p, max degree, number of operand pairs, m, t, no_prss, max padding, max shift, ring operations only)
# secpoly.degree (and with it monic, comparisons, division, gcd) needs every share it meets -- internal products included -- to be
# shorter than p: full plans keep 2 * (deg + 1 + pad) - 1 < p; tiny primes get the operations without that precondition only.
PLAN_Q = [(3, 2, 10, 1, 0, False, 2, 2, True), (5, 2, 10, 3, 1, False, 2, 2, True), (7, 1, 10, 1, 0, False, 1, 2, False),
          (11, 2, 12, 3, 1, False, 2, 2, False), (13, 2, 8, 3, 1, True, 2, 2, False), (31, 2, 6, 4, 1, False, 2, 1, False)]
PLAN_T = [(3, 2, 81, 1, 0, False, 2, 2, True), (5, 2, 100, 3, 1, False, 2, 2, True), (7, 1, 49, 1, 0, False, 1, 2, False), (7, 1, 49, 3, 1, False, 1, 2, False),
          (11, 2, 150, 3, 1, False, 2, 2, False), (13, 2, 100, 3, 1, True, 2, 2, False), (13, 3, 60, 4, 1, False, 1, 1, False),
          (17, 3, 40, 5, 2, False, 2, 1, False), (31, 2, 60, 2, 0, False, 2, 1, False), (101, 1, 60, 3, 1, False, 2, 1, False)]
RING = ('add', 'sub', 'mul', 'neg', 'eq', 'ne', 'ifelse', 'copy', 'lshift', 'rshift', 'truncate', 'getitem', 'eval')


def digits(a, p):
    out = []
    while a:
        out.append(a % p)
        a //= p
    return out


def gen_cases(p, deg, npairs, rnd, maxpad=2, maxshift=2, ring=False):
    top = p ** (deg + 1)
    if top * top <= 20000:
        pairs = [(a, b) for a in range(top) for b in range(top)]
        pairs = rnd.sample(pairs, min(len(pairs), npairs))
    else:
        pairs = [(rnd.randrange(top), rnd.randrange(top)) for _ in range(npairs)]
    pairs += [(0, 0), (0, rnd.randrange(1, top)), (rnd.randrange(1, top), 0), (1, 1), (top - 1, top - 1)]
    cases = []
    for a, b in pairs:
        pa, pb = rnd.randint(0, maxpad), rnd.randint(0, maxpad)
        n = rnd.randint(0, maxshift)
        base = {'a': a, 'b': b, 'n': 0, 'pa': pa, 'pb': pb, 'how': rnd.choice(['conv', 'input'])}
        for fn in ('add', 'sub', 'mul', 'neg', 'lt', 'le', 'eq', 'ne', 'ge', 'gt', 'ifelse', 'degree', 'monic', 'copy', 'irr'):
            cases.append(dict(base, fn=fn, n=rnd.randint(0, 1)))
        cases.append(dict(base, fn='lshift', n=n))
        cases.append(dict(base, fn='rshift', n=n))
        cases.append(dict(base, fn='truncate', n=rnd.randint(0, deg + 2)))
        cases.append(dict(base, fn='getitem', n=rnd.randint(0, deg + 2)))
        cases.append(dict(base, fn='reverse', n=rnd.choice([-2, -2, -1, 0, 1, deg, deg + 1])))
        cases.append(dict(base, fn='eval', n=rnd.randrange(p), variant=rnd.choice(['pub', 'sec'])))
        cases.append(dict(base, fn='pow', n=rnd.randint(0, 2)))          # degree <= 2 deg
        if b != 0:
            cases.append(dict(base, fn='divmod'))
            cases.append(dict(base, fn='mod'))
            # modulus held in a share LONGER than the dividend's although its degree is not larger (secret leading zeros)
            la, lb = len(digits(a, p)), len(digits(b, p))
            if la >= lb and la + 1 - lb <= maxpad + 1 and 2 * (la + 1) - 1 < p:
                longb = dict(base, pa=0, pb=la + 1 - lb)
                cases.append(dict(longb, fn='mod'))
                cases.append(dict(longb, fn='powmod', n=rnd.choice([1, 2, 3])))
            cases.append(dict(base, fn='powmod', n=rnd.randint(-3, 5)))
            cases.append(dict(base, fn='invert'))
        cases.append(dict(base, fn='gcd'))
    for c in cases:
        if c['fn'] in ('irr', 'powmod', 'gcd', 'invert'):
            c['timeout'] = 60.0         # many rounds of secure division: slow in virtual time for m >= 4
    if ring:
        cases = [c for c in cases if c['fn'] in RING]
    return cases


async def evaluator(mpc, c, idx, arg):
    import numpy as np
    from mpyc.secpols import secpoly
    from mpyc.gfpx import GFpX
    p = arg['p']
    poly = GFpX(p)
    secfld = mpc.SecFld(p)
    m = len(mpc.parties)

    def mk(v, pad, k=0):
        co = digits(v, p) + [0] * pad
        x = secpoly(np.array(co, dtype=int), secfld) if (co or pad) else secpoly(poly(0), secfld)
        if c['how'] == 'input':
            x = mpc.input(x, senders=(idx + k) % m)
        return x

    def enc(y):
        return int(y)
    a, b = mk(c['a'], c['pa']), mk(c['b'], c['pb'], 1)
    fn, n = c['fn'], c['n']
    lens = []

    async def opn(x):
        lens.append(len(x.share))
        return enc(await mpc.output(x))

    async def bit(x):
        v = await mpc.output(x)
        return int(v) % p
    r = {}
    static = idx % 3 == 0            # the function forms secpoly.add / sub / mul
    if fn == 'add':
        r['r1'] = await opn(secpoly.add(a, b) if static else a + b)
    elif fn == 'sub':
        r['r1'] = await opn(secpoly.sub(a, b) if static else a - b)
    elif fn == 'mul':
        r['r1'] = await opn(secpoly.mul(a, b) if static else a * b)
    elif fn == 'neg':
        r['r1'] = await opn(-a)
    elif fn in ('lt', 'le', 'eq', 'ne', 'ge', 'gt'):
        import operator
        r['r1'] = await bit(getattr(operator, fn)(a, b))
    elif fn == 'ifelse':
        cb = mpc.input(secfld(n), senders=idx % m)
        r['r1'] = await opn(secpoly.if_else(cb, a, b))
    elif fn == 'degree':
        r['r1'] = await bit(a.degree())
    elif fn == 'monic':
        r['r1'] = await opn(a.monic())
    elif fn == 'copy':
        r['r1'] = await opn(a.copy())
    elif fn == 'irr':
        r['r1'] = await bit(secpoly.is_irreducible(a))
    elif fn == 'lshift':
        r['r1'] = await opn(a << n)
    elif fn == 'rshift':
        r['r1'] = await opn(a >> n)
    elif fn == 'truncate':
        r['r1'] = await opn(a.truncate(n))
    elif fn == 'getitem':
        r['r1'] = await bit(a[n])
    elif fn == 'reverse':
        r['r1'] = await opn(a.reverse() if n == -2 else a.reverse(n))
    elif fn == 'eval':
        x = mpc.input(secfld(n), senders=idx % m) if c['variant'] == 'sec' else n
        r['r1'] = await bit(a(x))
    elif fn == 'pow':
        r['r1'] = await opn(a ** n)
    elif fn == 'mod':
        r['r1'] = await opn(secpoly.mod(a, b))
    elif fn == 'divmod':
        q, rem = divmod(a, b)
        r['r1'], r['r2'] = await opn(q), await opn(rem)
        r['r3'], r['r4'] = await opn(a // b), await opn(a % b)
    elif fn == 'gcd':
        g, s, t = secpoly.gcdext(a, b)
        r['r1'] = await opn(secpoly.gcd(a, b))
        r['r2'], r['r3'], r['r4'] = await opn(g), await opn(s), await opn(t)
    elif fn == 'invert':
        r['r2'] = int(poly.gcd(poly(c['a']), poly(c['b'])))
        if r['r2'] == 1:
            r['r1'] = await opn(secpoly.invert(a, b))
    elif fn == 'powmod':
        r['r2'] = int(poly.gcd(poly(c['a']), poly(c['b'])))
        if n >= 0 or r['r2'] == 1:
            r['r1'] = await opn(secpoly.powmod(a, n, b))
        else:
            r['skip'] = 1
    r['lens'] = lens
    return r


def np_events(job, col):
    from ..sim.world import load_mpyc
    from ..secrun import run_batch
    load_mpyc()
    rnd = random.Random(col.seed + 38)
    out = []
    for (p, deg, npairs, m, t, no_prss, maxpad, maxshift, ring) in job['plan']:
        cases = gen_cases(p, deg, npairs, rnd, maxpad, maxshift, ring)
        tag = f'p{p}d{deg}m{m}t{t}{"n" if no_prss else "p"}'
        st, results, errors = run_batch(cases, evaluator, m, t, seed=col.seed + p, no_prss=no_prss, ctxarg={'p': p}, chunk=1,
                                        max_steps=200000000, case_timeout=3.0)
        if not all(len(results[q] or []) == len(cases) for q in range(m)):
            col.violation('C38:run:not-complete', {'config': tag, 'status': st, 'errors': sorted({e[0][-160:] for e in errors if e})[:3]})
            continue
        errtxt = sorted({x[-160:] for e in errors for x in e})
        evs, groups = [], {}
        for i, c in enumerate(cases):
            rs = [results[q][i] for q in range(m)]
            if any('exc' in r for r in rs):
                la_, lb_ = len(digits(c['a'], p)) + c['pa'], len(digits(c['b'], p)) + c['pb']
                zero = ':both-empty' if (la_ == 0 and lb_ == 0) else ':zero-operand' if (c['a'] == 0 or (c['b'] == 0 and c['fn'] in ('add', 'sub', 'mul', 'gcd', 'lt', 'le', 'eq', 'ne', 'ge', 'gt', 'ifelse'))) else ''
                col.violation(f'C38:{c["fn"]}:raises{zero}', {'case': c, 'config': tag, 'result': rs[0], 'exceptions_in_world': errtxt[:3]})
                continue
            if any(r != rs[0] for r in rs):
                col.violation(f'C38:{c["fn"]}:parties-disagree', {'case': c, 'config': tag, 'result': rs})
                continue
            r = rs[0]
            col.case((tag, c['fn'], c['a'], c['b'], c['n'], c['pa'], c['pb']))
            if r.get('skip') or (c['fn'] == 'invert' and r['r2'] != 1):
                continue
            lens = r.pop('lens')
            r.pop('skip', None)
            fn = c['fn']
            if fn == 'invert' and c['b'] != 0 and len(digits(c['b'], p)) == 1:
                continue          # modulo a constant every polynomial is 0: inverse not defined
            la0 = len(digits(c['a'], p))
            rep = 'sec:1<=deg<=(len-1)/2' if (fn == 'irr' and 2 <= la0 and la0 - 1 <= (la0 + c['pa'] - 1) // 2) else 'sec'
            evs.append(dict(BLANK, fn=fn, a=c['a'], b=c['b'], n=c['n'], **dict(r, rep=rep)))
            la, lb = len(digits(c['a'], p)) + c['pa'], len(digits(c['b'], p)) + c['pb']
            key = (fn, la, lb if fn not in ('neg', 'degree', 'monic', 'copy', 'irr', 'lshift', 'rshift', 'truncate', 'getitem', 'reverse', 'eval', 'pow') else 0,
                   c['n'] if fn in ('lshift', 'rshift', 'truncate', 'reverse', 'pow', 'powmod') else 0)
            groups.setdefault(key, []).append((lens, c))
        for key, lst in groups.items():
            if lst[0][0]:
                evs.append(dict(BLANK, fn='lens', a=key[1], b=key[2], n=key[3], exc=key[0], lens=[str(l) for l, _ in lst]))
        out.append({'p': p, 'deg': deg, 'tag': tag, 'evs': evs, 'dmax': max(2 * deg, deg + maxshift) + 1})
    return out


def run(ctx):
    wd = tlc.make_workdir()
    try:
        plan = PLAN_Q if ctx.quick else PLAN_T
        runs = npchild.call(ctx, 'harness.checks.c38.np_events', {'plan': plan}, timeout=6000)
        for run_ in runs:
            p, deg, tag, evs = run_['p'], run_['deg'], run_['tag'], run_['evs']
            if not evs:
                continue
            tf = os.path.join(wd, f'tr_{tag}.json')
            json.dump(evs, open(tf, 'w'))
            cfg = os.path.join(wd, f'pt_{tag}.cfg')
            tlc.write_cfg(cfg, spec='TSpec', constants={'P': p, 'DMAX': run_['dmax']}, invariants=INVS)
            res = tlc.run_tlc('PolyTrace', cfg, workdir=wd, env={'TRACE_FILE': tf}, timeout=3000, cont=True)
            ctx.add_tlc(res, f'PolyTrace[secpoly,{tag}]')
            ctx.traces += len(evs)
            if res.generated < len(evs):
                raise tlc.TLCError(f'not all events were evaluated by TLC: {res.generated} < {len(evs)}')
            if not res.ok and not res.all_violations:
                raise tlc.TLCError('PolyTrace failed without listing violations:\n' + res.stdout[-2000:])
            for inv, k in res.all_violations:
                e = evs[k - 1]
                extra = f':{e["exc"]}' if e['fn'] == 'lens' else ''
                ctx.violation(f'C38:{e["fn"]}{extra}:{inv}:{e["rep"]}', {'p': p, 'config': tag, 'event': e})
            ctx.sample({'config': tag, 'event': evs[len(evs) // 3]}, cap=5)
        ctx.assumptions += ['degrees <= 3, primes <= 101 (TLC integers); share length <= p (precondition of secpoly.degree); division, invert and '
                            'powmod only for nonzero modulus, invert only when the inverse exists (documented assumptions)']
    finally:
        tlc.rm_workdir(wd)
