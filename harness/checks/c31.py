"""C31  Secure lists behave like Python lists under any operation history.

1. TLC: SecList.tla is Python list semantics as a state machine (lists of length <= 3 over {0,1,2}; get, set, del,
   insert, pop, append, extend, +, *, remove, count, contains, find, index, sort, <, ==); TLC builds the complete
   state graph.
2. spec -> code: every edge of the graph is executed on a real mpyc.seclists.seclist (secure integers; thorough:
   also fixed-point and field elements) with the index given as a public int, as a secret number and as a secret
   unit vector; the opened list and the opened return value must equal the edge's target state.  All edges on a
   one-party world, a covering sample on m = 3.  TLC-simulated walks (operation histories of length 8) are replayed
   on one seclist object to exercise histories rather than single steps.
"""
import os
import random
import re

from .. import tlc
from ..dot import Graph, parse_action
from ..secrun import run_batch

OTHERS = [[], [0, 2], [1], [1, 1, 0]]     # Others of the spec in LexLt order: <<>> < <<0,2>> < <<1>> < <<1,1,0>>


def apply_op(mpc, s, secnum, op, i, v, variant, keep=None):
    """apply one edge to seclist s; returns the (secure or public) return value or None
    (keep: the unit-vector keys handed to the list, to verify afterwards that the operation did not modify them)"""
    n = len(s)

    def idx(i, length):
        if variant == 'pub':
            return i
        if variant == 'sec':
            return secnum(i)
        u = [secnum(int(j == i)) for j in range(length)]
        if keep is not None:
            keep.append((u, i, length))
        return u
    if op == 'get':
        return s[idx(i, n)]
    if op == 'set':
        s[idx(i, n)] = secnum(v)
        return None
    if op == 'del':
        del s[idx(i, n)]
        return None
    if op == 'insert':
        s.insert(idx(i, n + 1), secnum(v))
        return None
    if op == 'pop':
        return s.pop(idx(i, n))
    if op == 'poplast':
        return s.pop()
    if op == 'append':
        s.append(secnum(v))
        return None
    if op == 'extend':
        s.extend([secnum(v), secnum(2 - v)])
        return None
    if op == 'add':
        t = s + [secnum(v)]
        s[:] = []          # replace content by the concatenation
        s.extend(t)
        return None
    if op == 'mul':
        t = s * i
        s[:] = []
        s.extend(t)
        return None
    if op == 'remove':
        return ('await', s.remove(secnum(v)))
    if op == 'count':
        return s.count(secnum(v) if variant != 'pub' else v)
    if op == 'contains':
        return s.contains(secnum(v))
    if op == 'find':
        return s.find(secnum(v))
    if op == 'index':
        return s.index(secnum(v))
    if op == 'sort':
        s.sort(reverse=bool(i))
        return None
    other = mpc.seclist(OTHERS[i - 1], type(secnum(0)))
    if op == 'lt':
        return s < other
    if op == 'eq':
        return s == other
    raise ValueError(op)


async def evaluate(mpc, e, idx, arg):
    stype = {'int': lambda: mpc.SecInt(8), 'fxp': lambda: mpc.SecFxp(8, 4), 'fld': lambda: mpc.SecFld(11)}[e['stype']]()
    m = len(mpc.parties)
    src = [mpc.input(stype(v), senders=(idx + k) % m) for k, v in enumerate(e['src'])]
    s = mpc.seclist(src, stype)
    rets = []
    keep = []
    for (op, i, v) in e['ops']:
        r = apply_op(mpc, s, stype, op, i, v, e['variant'], keep)
        if isinstance(r, tuple):
            await r[1]
            r = None
        if r is None:
            rets.append(-9)
        elif isinstance(r, int):
            rets.append(r)
        else:
            o = await mpc.output(r)
            v = int(o) if not isinstance(o, float) else int(round(o))
            if e['stype'] == 'fld' and v > 5:
                v -= 11           # field elements are unsigned: find() returns -1 = 10 in GF(11)
            rets.append(v)
    content = [await mpc.output(x) for x in list(s)]
    # a caller's key (secret unit vector) must be left as it was
    for (u, i, length) in keep:
        got = [int(round(float(x))) if not hasattr(x, 'value') else int(x.value) for x in await mpc.output(list(u))] if len(u) == length else None
        if got != [int(j == i) for j in range(length)]:
            rets.append(-777)          # marks "key changed by the operation": can never equal the specification's return values
    return [[int(round(float(c))) if not hasattr(c, 'value') else int(c.value) for c in content], rets]


def run(ctx):
    rnd = random.Random(ctx.seed)
    wd = tlc.make_workdir()
    try:
        cfg = os.path.join(wd, 'sl.cfg')
        tlc.write_cfg(cfg, constants={'MaxLen': 3, 'Vals': '<- V3'}, invariants=['LenBound', 'ElemsOK'])
        dump = os.path.join(wd, 'slgraph')
        res = tlc.run_tlc('MCSecList', cfg, workdir=wd, dump=dump, timeout=1800)
        ctx.add_tlc(res, 'SecList[MaxLen=3]')
        if not res.ok:
            ctx.violation(f'C31:model:{res.violation}', {'cex': res.cex[-1:]})
            return
        g = Graph(dump + '.dot')
        edges = {}
        for (src, dst, act) in g.edges:
            nm, (op, i, v) = parse_action(act)
            s0, s1 = g.state(src), g.state(dst)
            key = (tuple(s0['lst']), op, i, v)
            edges[key] = (list(s1['lst']), s1['ret'])
        keys = sorted(edges)
        indexed = {'get', 'set', 'del', 'insert', 'pop'}
        cases = []
        for key in keys:
            src, op, i, v = key
            variants = ('pub', 'sec', 'unit') if op in indexed else (('pub', 'sec') if op == 'count' else ('sec',))
            for variant in variants:
                cases.append({'src': list(src), 'ops': [[op, i, v]], 'variant': variant, 'stype': 'int',
                              'exp': [edges[key][0], [edges[key][1]]]})
        if not ctx.quick:
            for stype in ('fxp', 'fld'):
                for key in rnd.sample(keys, 300):
                    src, op, i, v = key
                    if stype == 'fld' and op in ('sort', 'lt'):
                        continue        # no order on field elements
                    cases.append({'src': list(src), 'ops': [[op, i, v]], 'variant': 'sec', 'stype': stype,
                                  'exp': [edges[key][0], [edges[key][1]]]})
        # histories: TLC-simulated walks replayed on one object
        d = os.path.join(wd, 'walks')
        os.makedirs(d, exist_ok=True)
        res = tlc.run_tlc('MCSecList', cfg, workdir=wd, simulate=f'file={d}/w,num={15 if ctx.quick else 120}', depth=9,
                          workers=1, seed=ctx.seed + 5, timeout=900)
        ctx.add_tlc(res, 'SecList-simulate')
        for fn in sorted(os.listdir(d)):
            txt = open(os.path.join(d, fn)).read()
            acts = re.findall(r'\\\* <Do\("(\w+)",(\d+),(\d+)\) line', txt)
            states = re.findall(r'lst = (<<[^\n]*>>)\s*\n/\\ ret = (-?\d+)', txt)
            if not states:
                states = [(b, a) for a, b in re.findall(r'ret = (-?\d+)\s*\n/\\ lst = (<<[^\n]*>>)', txt)]
            if len(states) == len(acts) + 1 and acts:
                ops = [[a, int(i), int(v)] for a, i, v in acts]
                rets = [int(r) for _, r in states[1:]]
                final = list(tlc.parse_value(states[-1][0]))
                cases.append({'src': [], 'ops': ops, 'variant': rnd.choice(('sec', 'unit', 'pub')), 'stype': 'int',
                              'exp': [final, rets], 'walk': True})
            os.unlink(os.path.join(d, fn))
        nwalk = sum(1 for c in cases if c.get('walk'))
        ctx.notes['histories_replayed'] = nwalk
        worlds = [(1, 0, False, 1.0), (3, 1, False, 0.08)] if ctx.quick else [(1, 0, False, 1.0), (3, 1, False, 0.5), (3, 1, True, 0.2), (4, 1, False, 0.2)]
        for (m, t, no_prss, frac) in worlds:
            sub = cases if frac >= 1 else [c for c in cases if rnd.random() < frac or c.get('walk')]
            tag = f'slm{m}t{t}{"n" if no_prss else "p"}'
            st, results, errors = run_batch(sub, evaluate, m, t, seed=ctx.seed + 1, no_prss=no_prss, chunk=25, max_steps=60000000)
            if st != 'done' or any(errors):
                ctx.violation('C31:run:not-complete', {'config': tag, 'status': st, 'errors': sorted({e[0][:90] for e in errors if e})[:3]})
                continue
            for i, c in enumerate(sub):
                for p in range(m):
                    got = results[p][i]
                    if got != c['exp']:
                        op = c['ops'][0][0] if not c.get('walk') else 'history'
                        if isinstance(got, list) and len(got) == 2 and -777 in got[1]:
                            op += ':key-changed-by-operation'
                        ctx.violation(f'C31:{op}:{c["variant"]}:{c["stype"]}', {'case': {k: c[k] for k in ('src', 'ops', 'variant', 'stype')},
                                                                                 'expected': c['exp'], 'got': got, 'party': p, 'config': tag})
                        break
                ctx.case((tuple(c['src']), str(c['ops']), c['variant'], c['stype']))
            ctx.traces += len(sub)
        ctx.sample({'edge': cases[len(cases) // 2]})
        ctx.sample({'history': next((c for c in cases if c.get('walk')), None)})
        ctx.exhaustive = True
        ctx.assumptions += ['lists of length <= 3 over {0,1,2}; in-range indices; remove/index only for present values']
    finally:
        tlc.rm_workdir(wd)
