"""C04  Secure finite-field arithmetic equals field arithmetic.

TLC (SecFldTrace over Fields.tla: the field built from first principles).  For prime fields, binary fields,
odd-characteristic extension fields and small fields that are lifted automatically because m >= q, all element
pairs (sampled for larger fields) go through + - * / ** == is_zero if_else, the bitwise & | ^ ~ (characteristic 2)
and bit decomposition / recomposition on real party worlds m in {1,3,4,5,7}; every party's opened result must be
the field result and an element of the *requested* field type.
"""
import json
import os
import random

from .. import tlc
from ..secrun import run_batch
from .c01 import validate
from .c20 import load

# (order, P, D, modc name in MCSecFld, modulus int)
FIELDS = [(2, 2, 1, 'M1', 0), (3, 3, 1, 'M1', 0), (5, 5, 1, 'M1', 0), (7, 7, 1, 'M1', 0), (11, 11, 1, 'M1', 0),
          (4, 2, 2, 'M4', 7), (8, 2, 3, 'M8', 11), (16, 2, 4, 'M16', 19), (9, 3, 2, 'M9', 10), (251, 251, 1, 'M1', 0)]
BLANK = {'op': '', 'a': 0, 'b': 0, 'n': 0, 'res': [], 'inbase': True}


def gen_cases(q, P, D, rnd, quick):
    els = list(range(q)) if q <= 16 else sorted({0, 1, 2, q - 1, q - 2} | {rnd.randrange(q) for _ in range(8)})
    pairs = [(a, b) for a in els for b in els]
    if quick and len(pairs) > 50:
        pairs = rnd.sample(pairs, 50)
    cases = []
    for a, b in pairs:
        for op in ('add', 'sub', 'mul', 'eq', 'sum3'):
            cases.append(dict(BLANK, op=op, a=a, b=b))
        if b:
            cases.append(dict(BLANK, op='div', a=a, b=b))
        cases.append(dict(BLANK, op='ifelse', a=a, b=b, n=rnd.randint(0, 1)))
        if P == 2 and D > 1:
            for op in ('and', 'or', 'xor'):
                cases.append(dict(BLANK, op=op, a=a, b=b))
    for a in els:
        cases.append(dict(BLANK, op='neg', a=a))
        cases.append(dict(BLANK, op='iszero', a=a))
        for n in (0, 1, 2, 3, 5):
            cases.append(dict(BLANK, op='pow', a=a, n=n))
        if a:
            cases.append(dict(BLANK, op='rec', a=a))
            cases.append(dict(BLANK, op='npow', a=a, n=2))
        if P == 2 and D > 1:
            cases.append(dict(BLANK, op='not', a=a))
        if D == 1 or P == 2:
            nb = (q - 1).bit_length()
            cases.append(dict(BLANK, op='tobits', a=a, n=nb))
            cases.append(dict(BLANK, op='frombits', a=a, n=nb))
    return cases


async def evaluate(mpc, e, idx, q):
    sf = mpc.SecFld(q)
    m = len(mpc.parties)

    def inp(v, kk=0):
        return mpc.input(sf(v), senders=(idx + kk) % m)
    op = e['op']
    a = inp(e['a'])
    if op in ('add', 'sub', 'mul', 'div', 'eq', 'and', 'or', 'xor', 'sum3'):
        b = inp(e['b'], 1)
        r = {'add': lambda: a + b, 'sub': lambda: a - b, 'mul': lambda: a * b, 'div': lambda: a / b, 'eq': lambda: a == b,
             'and': lambda: a & b, 'or': lambda: a | b, 'xor': lambda: a ^ b, 'sum3': lambda: mpc.sum([a, b, a])}[op]()
    elif op == 'ifelse':
        b = inp(e['b'], 1)
        r = mpc.if_else(inp(e['n'], 2), a, b)
    elif op == 'neg':
        r = -a
    elif op == 'iszero':
        r = mpc.is_zero(a)
    elif op == 'pow':
        r = a ** e['n']
    elif op == 'npow':
        r = a ** (-e['n'])
    elif op == 'rec':
        r = 1 / a
    elif op == 'not':
        r = ~a
    elif op == 'tobits':
        r = mpc.to_bits(a)
        v = await mpc.output(list(r))
        return [[int(x.value) if not isinstance(x.value, int) else x.value for x in v], all(type(x) is sf.field if sf.subfield is None else type(x) is sf.subfield for x in v)]
    elif op == 'frombits':
        r = mpc.from_bits(mpc.to_bits(a))
    v = await mpc.output(r)
    want = sf.subfield if getattr(sf, 'subfield', None) is not None else sf.field
    return [[int(v.value)], type(v) is want and want.order == q]


def run(ctx):
    rnd = random.Random(ctx.seed)
    load()
    wd = tlc.make_workdir({'MCSecFld.tla': '---- MODULE MCSecFld ----\nEXTENDS SecFldTrace\nM1 == <<0>>\nM4 == <<1, 1>>\n'
                                           'M8 == <<1, 1, 0>>\nM16 == <<1, 1, 0, 0>>\nM9 == <<1, 0>>\n====\n'})
    try:
        worlds = [(1, 0, False), (3, 1, False), (5, 2, True)] if ctx.quick else \
            [(1, 0, False), (2, 0, False), (3, 1, False), (3, 1, True), (4, 1, False), (5, 2, True), (7, 3, False)]
        fields = [f for f in FIELDS if ctx.quick is False or f[0] in (2, 3, 5, 7, 4, 8, 9, 251)]
        for (q, P, D, mod, modint) in fields:
            cases = gen_cases(q, P, D, rnd, ctx.quick)
            for (m, t, no_prss) in worlds:
                tag = f'fld{q}m{m}t{t}{"n" if no_prss else "p"}'
                lifted = t > 0 and m >= q
                fk = 'prime' if D == 1 else ('binary' if P == 2 else 'oddext')
                lk = 'lifted' if lifted else 'plain'
                # bit decomposition of lifted odd prime fields is run on its own (it raises, see known findings),
                # so that the rest of the batch is still validated
                risky = [c for c in cases if c['op'] in ('tobits', 'frombits')] if (lifted and P > 2) else []
                main = [c for c in cases if c not in risky]
                if risky:
                    st2, res2, err2 = run_batch(risky[:4], evaluate, m, t, seed=ctx.seed, no_prss=no_prss, ctxarg=q, max_steps=200000)
                    if st2 != 'done' or any(err2):
                        ctx.violation(f'C04:tobits:raises:{lk}:{fk}', {'config': tag, 'status': st2,
                                                                         'errors': sorted({e[0][:80] for e in err2 if e})[:2]})
                    else:
                        main = cases
                cases_run = main
                st, results, errors = run_batch(cases_run, evaluate, m, t, seed=ctx.seed + q, no_prss=no_prss, ctxarg=q, chunk=30,
                                                max_steps=1500000)
                if st != 'done' or any(errors):
                    errs = sorted({e[0][:60] for e in errors if e})
                    ctx.violation(f'C04:run:not-complete:{lk}:{fk}', {'config': tag, 'status': st, 'errors': errs[:3]})
                    continue
                evs = []
                for i, e in enumerate(cases_run):
                    r = [results[p][i] for p in range(m)]
                    if any(isinstance(x, dict) for x in r):
                        ctx.violation(f'C04:{e["op"]}:raises:{lk}:{fk}', {'event': e, 'config': tag, 'result': r[0]})
                        continue
                    evs.append(dict(e, res=[x[0] for x in r], inbase=all(x[1] for x in r)))
                    ctx.case((q, e['op'], e['a'], e['b'], e['n'], lifted))
                validate(ctx, wd, evs, tag, module='MCSecFld', invs=('FldOK', 'InRequestedField'),
                         consts={'P': P, 'D': D, 'MODC': f'<- {mod}'},
                         keyfn=lambda e, inv, lifted=lifted: f'C04:{e["op"]}:{inv}:{"lifted" if lifted else "plain"}', prop='C04')
            ctx.sample({'field': q, 'event': evs[0] if evs else None}, cap=4)
        ctx.notes['lifted_configurations'] = sorted({f'GF({q}) m={m}' for (q, *_r) in fields for (m, t, _n) in worlds if t > 0 and m >= q})
        ctx.assumptions += ['field orders up to 251; larger fields not decided by TLC']
    finally:
        tlc.rm_workdir(wd)
