"""C39  Secure type and party configuration parameters are valid.

TLC (Config.tla): SecFld(order, char, ext_deg, min_order) must be accepted exactly when some field GF(p^d) satisfies
every given constraint, and must then return a field satisfying all of them; with t > 0 and m >= q the sharing
field is an extension with more elements than parties and outputs are elements of the requested field; setup()
accepts -M m -T t iff 2t < m (default t = (m-1) div 2); every secure type's field exceeds the number of parties
when t > 0.  All argument combinations with order <= 32 (thorough 64), chars 2..9, degrees 1..3, min_order up to
100 on worlds (m, t) up to (7, 3); setup() for all m <= 7, t <= 4 in fresh interpreter processes.
"""
import json
import os
import subprocess
import sys

from .. import tlc

ROOT = os.path.dirname(os.path.dirname(os.path.dirname(os.path.abspath(__file__))))


def worker(ctx, wd, job, tag, prop):
    jp, op = os.path.join(wd, f'job_{tag}.json'), os.path.join(wd, f'ev_{tag}.json')
    json.dump(job, open(jp, 'w'))
    try:
        pr = subprocess.run([sys.executable, os.path.join(ROOT, 'harness', 'workers', 'config_worker.py'), jp, op],
                            capture_output=True, text=True, timeout=900)
    except subprocess.TimeoutExpired:
        ctx.violation(f'{prop}:impl-hangs', {'job': job})
        return []
    if pr.returncode != 0:
        ctx.violation(f'{prop}:worker-raises', {'stderr': pr.stderr[-1500:]})
        return []
    return json.load(open(op))['evs']


def validate(ctx, wd, evs, tag, invs, prop, keyfn):
    tf = os.path.join(wd, f'tr_{tag}.json')
    json.dump(evs, open(tf, 'w'))
    cfg = os.path.join(wd, f'cfg_{tag}.cfg')
    tlc.write_cfg(cfg, spec='TSpec', invariants=invs)
    res = tlc.run_tlc('Config', cfg, workdir=wd, env={'TRACE_FILE': tf}, timeout=3000, cont=True)
    ctx.add_tlc(res, f'Config[{tag}]')
    ctx.traces += len(evs)
    if res.generated < len(evs):
        raise tlc.TLCError(f'not all events were evaluated by TLC: {res.generated} < {len(evs)}')
    if not res.ok and not res.all_violations:
        raise tlc.TLCError('Config failed without listing violations:\n' + res.stdout[-2500:])
    for inv, k in res.all_violations:
        e = evs[k - 1]
        ctx.violation(keyfn(e, inv), {'invariant': inv, 'event': {kk: v for kk, v in e.items() if v not in (0, '', False) or kk in ('t',)}})


def run(ctx):
    wd = tlc.make_workdir()
    try:
        worlds = [(1, 0), (3, 1), (4, 1), (5, 2)] if ctx.quick else [(1, 0), (2, 0), (3, 1), (4, 1), (5, 2), (7, 3), (7, 0), (8, 3), (9, 4)]
        evs = worker(ctx, wd, {'what': 'secfld', 'seed': ctx.seed, 'max_order': 32 if ctx.quick else 64,
                               'max_combos': 260 if ctx.quick else 5000, 'worlds': worlds}, 'secfld', 'C39')
        evs += worker(ctx, wd, {'what': 'setup', 'max_m': 4 if ctx.quick else 7, 'max_t': 2 if ctx.quick else 4}, 'setup', 'C39')
        for e in evs:
            ctx.case((e['kind'], e['order'], e['char'], e['ext_deg'], e['min_order'], e['m'], e['t'], e['l'], e['f']))

        def keyfn(e, inv):
            if e['kind'] == 'secfld':
                lifted = e['t'] > 0 and e['acc'] and e['m'] >= e['rorder']
                nonprime = e['acc'] and e['rdeg'] > 1
                want_lift = e['t'] > 0 and not e['acc'] and 'AssertionError' in e['exc']
                return f'C39:secfld:{inv}:' + ('lift-nonprime' if want_lift else ('lifted' if lifted else 'plain'))
            return f'C39:{e["kind"]}:{inv}'
        validate(ctx, wd, evs, 'c39', ['SecFldOK', 'LiftOK', 'SetupOK', 'TypeFieldOK'], 'C39', keyfn)
        ctx.sample({'event': next(e for e in evs if e['kind'] == 'secfld' and e['min_order'])})
        ctx.sample({'event': next(e for e in evs if e['kind'] == 'setup' and not e['acc'])})
        ctx.notes['lifted_cases'] = sum(1 for e in evs if e['kind'] == 'secfld' and e['acc'] and e['forder'] != e['rorder'])
        ctx.assumptions += ['field orders below 2^12 in the enumerated requests']
    finally:
        tlc.rm_workdir(wd)
