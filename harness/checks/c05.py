"""C05  Secure floating-point arithmetic approximates float arithmetic.

TLC (SecFlt.tla) checks the relative bounds in exact integer arithmetic: input/output within 2u|x|, + and - within
16u max(|x|,|y|), * and / within 16u of the exact result, comparisons exact whenever |x-y| > 16u max(|x|,|y|).  All
pairs from a grid of representable inputs of SecFlt(s=8, e=5) (thorough: also s=10) -- zero included -- are evaluated
on real party worlds m in {1,3} (thorough more), with receivers = all and a proper subset (the leader branch of
SecureFloat._output).  Standard precisions (24/53-bit significands) exceed TLC integers and are not claimed.
"""
import json
import os
import random
from fractions import Fraction

from .. import tlc
from ..secrun import run_batch
from .c01 import validate

BLANK = {'op': '', 'x': 0, 'y': 0, 's': 1, 'nn': 128, 'res': [], 'sub': False, 'fx': 0.0, 'fy': 0.0}
OPS = ['add', 'sub', 'mul', 'div', 'lt', 'le', 'eq', 'ge', 'gt', 'ne']


def grid(sbits, rnd, quick):
    vals = [0.0]
    ms = [1 << (sbits - 1), (1 << sbits) - 1, (1 << (sbits - 1)) + 1] + [rnd.randrange(1 << (sbits - 1), 1 << sbits) for _ in range(3)]
    for m in ms:
        for e in (-12, -9, -3, -1, 0, 2, 3):
            for sg in (1, -1):
                vals.append(sg * m * 2.0 ** (e - sbits))
    return vals


async def evaluate(mpc, e, idx, sbits):
    secflt = mpc.SecFlt(s=sbits, e=5)
    m = len(mpc.parties)
    x = mpc.input(secflt(e['fx']), senders=idx % m)
    op = e['op']
    recv = None if not e['sub'] else [m - 1]
    if op == 'io':
        r = x
    else:
        y = mpc.input(secflt(e['fy']), senders=(idx + 1) % m)
        r = {'add': lambda: x + y, 'sub': lambda: x - y, 'mul': lambda: x * y, 'div': lambda: x / y, 'lt': lambda: x < y,
             'le': lambda: x <= y, 'eq': lambda: x == y, 'ge': lambda: x >= y, 'gt': lambda: x > y, 'ne': lambda: x != y}[op]()
    v = await mpc.output(r, receivers=recv) if recv else await mpc.output(r)
    return None if v is None else float(v)


def run(ctx):
    rnd = random.Random(ctx.seed)
    wd = tlc.make_workdir()
    try:
        for sbits in ([8] if ctx.quick else [8, 10]):
            vals = grid(sbits, rnd, ctx.quick)
            pairs = [(a, b) for a in vals for b in vals]
            zero_pairs = [(a, b) for a, b in pairs if a == 0.0 or b == 0.0]
            pairs = rnd.sample(pairs, 110 if ctx.quick else 260) + rnd.sample(zero_pairs, 12 if ctx.quick else 30)
            cases = []
            for a, b in pairs:
                for op in OPS:
                    if op == 'div' and b == 0.0:
                        continue
                    if ctx.quick and op in ('le', 'ge', 'ne', 'gt') and rnd.random() < 0.7:
                        continue
                    cases.append(dict(BLANK, op=op, fx=a, fy=b, sub=(rnd.random() < 0.25)))
            for a in vals:
                cases.append(dict(BLANK, op='io', fx=a, sub=False))
                cases.append(dict(BLANK, op='io', fx=a, sub=True))
            worlds = [(1, 0, False), (3, 1, False)] if ctx.quick else [(1, 0, False), (3, 1, False), (3, 1, True), (5, 2, True)]
            for (m, t, no_prss) in worlds:
                tag = f'flt{sbits}m{m}t{t}{"n" if no_prss else "p"}'
                st, results, errors = run_batch(cases, evaluate, m, t, seed=ctx.seed + 3, no_prss=no_prss, ctxarg=sbits, chunk=1, max_steps=30000000, case_timeout=8.0)
                # (after a case that never delivers a result -- known finding C05:div:no-result -- some parties skip shutdown() and the
                #  others wait for them: the world then ends in 'deadlock' although every case has been evaluated)
                if st != 'done' and not all(len(results[p] or []) == len(cases) for p in range(m)):
                    ctx.violation('C05:run:not-complete', {'config': tag, 'status': st, 'errors': sorted({e[0][:100] for e in errors if e})[:3]})
                    continue
                errtxt = sorted({x[:60] for e in errors for x in e})
                evs = []
                skipped = 0
                for i, e in enumerate(cases):
                    r = [results[p][i] for p in range(m)]
                    if any(isinstance(x, dict) for x in r):
                        zc = 'zero-operand' if (e['fx'] == 0.0 or (e['fy'] == 0.0 and e['op'] != 'io')) else 'nonzero'
                        ctx.violation(f'C05:{e["op"]}:no-result:{zc}', {'event': e, 'config': tag, 'result': [x for x in r if isinstance(x, dict)][0],
                                                                          'exceptions_in_world': errtxt[:3]})
                        continue
                    got = [x for x in r if x is not None]
                    if e['sub'] and (len(got) != 1 or r[m - 1] is None):
                        ctx.violation(f'C05:{e["op"]}:receivers', {'event': e, 'config': tag, 'result': r})
                        continue
                    fr = [Fraction(e['fx']), Fraction(e['fy'])] + [Fraction(x) for x in got]
                    S = max(f.denominator for f in fr)
                    ints = [int(f * S) for f in fr]
                    lim = (1 << 14) if e['op'] in ('mul', 'div') else (1 << 22)
                    if S > lim or max(abs(v) for v in ints) > lim:
                        skipped += 1
                        continue
                    zero = 'zero-operand' if (e['fx'] == 0.0 or (e['fy'] == 0.0 and e['op'] != 'io')) else 'nonzero'
                    evs.append(dict(e, x=ints[0], y=ints[1], s=S, nn=1 << (sbits - 1), res=ints[2:], cls=zero))
                    ctx.case((sbits, e['op'], e['fx'], e['fy'], e['sub']))
                ctx.notes['events_outside_TLC_integers'] = ctx.notes.get('events_outside_TLC_integers', 0) + skipped
                validate(ctx, wd, evs, tag, module='SecFlt', invs=('FltOK', 'AgreeOK'),
                         keyfn=lambda e, inv: f'C05:{e["op"]}:{inv}:{e["cls"]}', prop='C05')
        ctx.sample({'event': evs[5]})
        ctx.assumptions += ['8- and 10-bit significands; IEEE-size precisions are not decided by TLC']
    finally:
        tlc.rm_workdir(wd)
