"""C06  Secure conversion between types preserves values.

TLC (Convert.tla).  For all pairs among SecInt(4), SecInt(8), SecFxp(8,2), SecFxp(10,4), SecFld(7), SecFld(11),
SecFld(101) (signed and unsigned worlds) and all / sampled in-range source values that fit the target, the real
mpc.convert is evaluated on party worlds m in {1,3,4,5}, PRSS on and off (the no-PRSS branch sums t+1 dealt
masks); every party's opened result is validated: same value; fixed-point -> integer gives a neighbouring
integer; field targets keep the canonical representative.
"""
import json
import os
import random

from .. import tlc
from ..secrun import run_batch
from .c01 import validate

TYPES = [('int', 4, 0, 0), ('int', 8, 0, 0), ('fxp', 8, 2, 0), ('fxp', 10, 4, 0), ('fld', 0, 0, 7), ('fld', 0, 0, 11), ('fld', 0, 0, 101)]
BLANK = {'skind': '', 'sl': 0, 'sf': 0, 'sp': 0, 'ssigned': False, 'tkind': '', 'tl': 0, 'tf': 0, 'tp': 0, 'a': 0, 'res': []}


def src_values(T, signed, rnd, quick):
    kind, l, f, p = T
    if kind == 'fld':
        return list(range(p)) if p <= 11 else sorted({0, 1, p // 2, p // 2 + 1, p - 1} | {rnd.randrange(p) for _ in range(6)})
    lo, hi = -(1 << (l - 1)), (1 << (l - 1)) - 1
    vals = list(range(lo, hi + 1))
    if len(vals) > 40:
        vals = sorted({lo, lo + 1, -1, 0, 1, hi - 1, hi} | {rnd.randint(lo, hi) for _ in range(20 if quick else 60)})
    return vals


def fits(S, T, a, ssigned):
    """does the source value (with its rounding neighbours) fit the target type and the conversion's own bound?"""
    from fractions import Fraction
    import math
    sk, sl, sf, sp = S
    tk, tl, tf, tp = T
    if sk == 'fld':
        v = Fraction(a - sp if (ssigned and 2 * a > sp) else a)
    else:
        v = Fraction(a, 1 << sf)
    if tk == 'fld':
        if v.denominator != 1:
            return False
        return abs(v) < tp / 2 if ssigned else 0 <= v < tp
    cands = [math.floor(v * (1 << tf)), math.ceil(v * (1 << tf))]
    lo, hi = -(1 << (tl - 1)), (1 << (tl - 1)) - 1
    if sk != 'fld':
        # integer part must fit min(sl, tl) bits (the mask offset of _convert uses that length)
        lmin = min(sl, tl)
        raw = a
        if not (-(1 << (lmin - 1)) <= raw < (1 << (lmin - 1))):
            return False
    return all(lo <= c <= hi for c in cands)


def keyfn(e, inv):
    key = f'C06:{e["skind"]}->{e["tkind"]}:{inv}'
    if e['skind'] == 'fld' and e['tkind'] in ('int', 'fxp') and (e['tl'] - e['tf']) <= e['sp'].bit_length() + 1:
        key += ':target-narrower-than-source-field'
    return key


async def evaluate(mpc, e, idx, signed):
    m = len(mpc.parties)

    def mk(kind, l, f, p):
        if kind == 'int':
            return mpc.SecInt(l)
        if kind == 'fxp':
            return mpc.SecFxp(l, f)
        return mpc.SecFld(p, signed=signed) if signed else mpc.SecFld(p)
    S = mk(e['skind'], e['sl'], e['sf'], e['sp'])
    T = mk(e['tkind'], e['tl'], e['tf'], e['tp'])
    if e['skind'] == 'fxp':
        x = S(e['a'] / (1 << e['sf']))
    else:
        x = S(e['a'])
    x = mpc.input(x, senders=idx % m)
    y = mpc.convert(x, T)
    v = await mpc.output(y, raw=True)
    if e['tkind'] == 'fld':
        return int(v.value)
    return int(v)


def run(ctx):
    rnd = random.Random(ctx.seed)
    wd = tlc.make_workdir()
    try:
        worlds = [(1, 0, False), (3, 1, False), (3, 1, True), (4, 1, True), (5, 2, False)] if ctx.quick else \
            [(1, 0, False), (2, 0, True), (3, 1, False), (3, 1, True), (4, 1, False), (4, 1, True), (5, 2, False), (5, 2, True)]
        for signed in (False, True):
            cases = []
            for S in TYPES:
                for T in TYPES:
                    if S == T and S[0] != 'fld':
                        continue
                    vals = src_values(S, signed, rnd, ctx.quick)
                    if ctx.quick and len(vals) > 14:
                        vals = rnd.sample(vals, 14)
                    for a in vals:
                        if fits(S, T, a, signed):
                            cases.append(dict(BLANK, skind=S[0], sl=S[1], sf=S[2], sp=S[3], ssigned=signed,
                                              tkind=T[0], tl=T[1], tf=T[2], tp=T[3], a=a))
            for (m, t, no_prss) in worlds:
                tag = f'conv{"s" if signed else "u"}m{m}t{t}{"n" if no_prss else "p"}'
                st, results, errors = run_batch(cases, evaluate, m, t, seed=ctx.seed + 9, no_prss=no_prss, ctxarg=signed, chunk=30)
                if st != 'done' or any(errors):
                    ctx.violation('C06:run:not-complete', {'config': tag, 'status': st, 'errors': sorted({e[0][:80] for e in errors if e})[:3]})
                    continue
                evs = []
                for i, e in enumerate(cases):
                    r = [results[p][i] for p in range(m)]
                    if any(isinstance(x, dict) for x in r):
                        ctx.violation(f'C06:{e["skind"]}->{e["tkind"]}:raises', {'event': e, 'config': tag, 'result': r[0]})
                        continue
                    evs.append(dict(e, res=r))
                    ctx.case((signed, e['skind'], e['sl'], e['sf'], e['sp'], e['tkind'], e['tl'], e['tf'], e['tp'], e['a']))
                validate(ctx, wd, evs, tag, module='Convert', invs=('ConvOK', 'AgreeOK'),
                         keyfn=keyfn, prop='C06')
        ctx.sample({'event': evs[0]})
        ctx.sample({'event': evs[-1]})
        ctx.assumptions += ['values fit the target type and min(source, target) bit length (precondition of convert)']
    finally:
        tlc.rm_workdir(wd)
