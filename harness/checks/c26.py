"""C26  Generated field primes meet their size, Blum and root-of-unity constraints.

TLC (Config.tla: PrimeRootOK, NumFieldOK) with overflow-free modular arithmetic: for every l in 2..26 (thorough 29),
blum in {True, False} and n in {1, 2, 3, 5, 7, 11, 13}: find_prime_root(l, blum, n) returns a prime of bit length
>= l (= l for n <= 2), p = 3 mod 4 when requested, and w of multiplicative order n (w = 1 for n = 1).  The prime
fields of SecInt / SecFxp types created in real worlds (m in 1..7, k in {1,2,4,8}, small l, f) are primes larger than
2^(l+f+k+1) and larger than m.  Default-size types (k = 30, 64-bit primes) exceed TLC integers and are not claimed.
"""
from .. import tlc
from .c39 import worker, validate


def run(ctx):
    wd = tlc.make_workdir()
    try:
        worlds = [(1, 0), (3, 1), (7, 3)] if ctx.quick else [(1, 0), (2, 0), (3, 1), (4, 1), (5, 2), (6, 2), (7, 3)]
        evs = worker(ctx, wd, {'what': 'primeroot', 'max_l': 24 if ctx.quick else 29, 'worlds': worlds}, 'pr', 'C26')
        for e in evs:
            ctx.case((e['kind'], e['l'], e['n'], e['blum'], e['f'], e['k'], e['m']))

        def keyfn(e, inv):
            if e['kind'] == 'primeroot':
                return f'C26:find_prime_root:{inv}:' + ('l<=2' if e['l'] <= 2 else 'l>2')
            return f'C26:numtype:{inv}'
        validate(ctx, wd, evs, 'c26', ['PrimeRootOK', 'NumFieldOK'], 'C26', keyfn)
        ctx.sample({'event': {k: v for k, v in evs[40].items() if v not in (0, '', False)}})
        ctx.sample({'event': {k: v for k, v in evs[-1].items() if v not in (0, '', False)}})
        ctx.assumptions += ['primes below 2^30 (TLC integers); default k = 30 types are not decided by TLC']
    finally:
        tlc.rm_workdir(wd)
