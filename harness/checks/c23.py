"""C23  Polynomials over GF(p) form a ring with a correct division algorithm.

1. TLC: Poly.RingLawsUpTo (the specification's own operators form a commutative ring on all polynomials of
   small degree) for each prime.
2. binding: all pairs of polynomials of bounded degree (p = 2: degree <= 3 in both the bitmask representation and
   the generic list algorithms instantiated for p = 2; p = 3: degree <= 2; p = 5, 7: degree <= 1; larger degrees
   sampled) through + - * neg < divmod // % gcd gcdext invert powmod of the real gfpx classes; TLC (PolyTrace)
   checks each result: ring operations by value, divmod / gcdext / invert / powmod by their defining relations
   (a = q b + r, deg r < deg b; g = s a + t b monic common divisor; a i = 1 mod b; repeated multiplication mod b).
"""
import json
import os
import subprocess
import sys

from .. import tlc

ROOT = os.path.dirname(os.path.dirname(os.path.dirname(os.path.abspath(__file__))))
INVS = ['RingOK', 'DivModOK', 'GcdOK', 'InvertOK', 'PowModOK']
PLAN_Q = [(2, 3, 0), (3, 2, 0), (5, 1, 0), (7, 1, 0), (3, 3, 300), (11, 2, 200)]
PLAN_T = [(2, 4, 0), (3, 2, 0), (3, 3, 0), (5, 2, 0), (7, 1, 0), (7, 2, 4000), (11, 1, 0), (11, 2, 3000), (13, 2, 2000), (2, 6, 4000)]


def poly_run(ctx, wd, p, deg, maxpairs, what, invs, prop):
    job = {'p': p, 'deg': deg, 'what': what, 'seed': ctx.seed, 'max_pairs': maxpairs or 10 ** 9}
    tag = f'{what}_{p}_{deg}'
    jp, op = os.path.join(wd, f'job_{tag}.json'), os.path.join(wd, f'ev_{tag}.json')
    json.dump(job, open(jp, 'w'))
    try:
        pr = subprocess.run([sys.executable, os.path.join(ROOT, 'harness', 'workers', 'poly_worker.py'), jp, op],
                            capture_output=True, text=True, timeout=300)
    except subprocess.TimeoutExpired:
        ctx.violation(f'{prop}:impl-hangs', {'p': p, 'deg': deg})
        return
    if pr.returncode != 0:
        ctx.violation(f'{prop}:impl-raises', {'p': p, 'deg': deg, 'stderr': pr.stderr[-1200:]})
        return
    evs = json.load(open(op))['evs']
    tf = os.path.join(wd, f'tr_{tag}.json')
    json.dump(evs, open(tf, 'w'))
    cfg = os.path.join(wd, f'pt_{tag}.cfg')
    dmax = 2 * deg + 2
    tlc.write_cfg(cfg, spec='TSpec', constants={'P': p, 'DMAX': dmax}, invariants=invs)
    res = tlc.run_tlc('PolyTrace', cfg, workdir=wd, env={'TRACE_FILE': tf}, timeout=3000, cont=True)
    ctx.add_tlc(res, f'PolyTrace[{what},p={p},deg<={deg}]')
    ctx.traces += len(evs)
    if res.generated < len(evs):
        raise tlc.TLCError(f'not all events were evaluated by TLC: {res.generated} < {len(evs)}')
    for e in evs:
        ctx.case((p, e['rep'], e['fn'], e['a'], e['b'], e['n']))
    if not res.ok and not res.all_violations:
        raise tlc.TLCError('PolyTrace failed without listing violations:\n' + res.stdout[-2000:])
    for inv, k in res.all_violations:
        e = evs[k - 1]
        extra = ''
        if e['fn'] == 'powmod':
            extra = f':n={e["n"]}'
        if e['fn'] == 'nextirr':
            extra = ':a<p' if e['a'] < p else ''
        ctx.violation(f'{prop}:{e["fn"]}{extra}:{"p=2" if p == 2 else "odd-p"}:{e["rep"]}',
                      {'p': p, 'invariant': inv, 'event': e})
    ctx.sample({'p': p, 'deg': deg, 'event': evs[len(evs) // 3]}, cap=5)


def run(ctx):
    wd = tlc.make_workdir()
    try:
        for p, d in ((2, 3), (3, 2), (5, 1)) if ctx.quick else ((2, 4), (3, 2), (5, 2), (7, 1)):
            with open(os.path.join(wd, f'MCPoly{p}.tla'), 'w') as f:
                f.write(f'---- MODULE MCPoly{p} ----\nEXTENDS Poly, TLC\nVARIABLE x\nInit == x = 0\nNext == UNCHANGED x\n'
                        f'Laws == RingLawsUpTo({d})\n====\n')
            cfg = os.path.join(wd, f'mcpoly{p}.cfg')
            tlc.write_cfg(cfg, init='Init', next_='Next', constants={'P': p, 'DMAX': 2 * d + 1}, invariants=['Laws'])
            res = tlc.run_tlc(f'MCPoly{p}', cfg, workdir=wd, timeout=3000)
            ctx.add_tlc(res, f'Poly.RingLaws[p={p},deg<={d}]')
            if not res.ok:
                ctx.violation('C23:model:RingLaws', {'p': p, 'out': res.stdout[-600:]})
        for (p, deg, mp) in (PLAN_Q if ctx.quick else PLAN_T):
            poly_run(ctx, wd, p, deg, mp, 'ring', INVS, 'C23')
        ctx.assumptions += ['degrees bounded as listed; large primes are not decided by TLC']
    finally:
        tlc.rm_workdir(wd)
