"""C16  PRSS keys are shared exactly among each subset's members.

1. TLC: Keys.tla for all (m, t), m <= 5 exhaustively (every order of connection set-up and handshake
   completion), m = 6, 7 by TLC simulation: Agreement, NoForeignKey, CoalitionLacksKey.
2. spec -> code: TLC prints, per (m, t), the client's transmission order of subsets for every connection and
   the set of subsets each party must hold at the end.  The real _prss_keys_to_peer() must produce the keys of
   exactly those subsets in that order, and after real start() in the simulator (handshakes delivered byte by
   byte, in header-size pieces, or randomly chunked, in random order, interleaved with early protocol frames)
   every party's _prss_keys must be that set, with equal key values within a subset and distinct across subsets.
"""
import itertools
import os
import random
import re

from .. import tlc
from ..sim.world import World, RandomScheduler, PriorityScheduler

INVS = ['Agreement', 'NoForeignKey', 'CoalitionLacksKey', 'Terminal']


async def p_keys(mpc, snap):
    await mpc.start()
    snap[mpc.pid] = {'after_start': {k: bytes(v) for k, v in mpc._prss_keys.items()}}
    secint = mpc.SecInt(8)
    b = mpc.random_bits(secint, 2)          # PRSS use right after start: early frames on some connections
    x = mpc.input(secint(mpc.pid))
    r = await mpc.output(mpc.sum(x) + b[0] * 0)
    await mpc.shutdown()
    snap[mpc.pid]['end'] = {k: bytes(v) for k, v in mpc._prss_keys.items()}
    return r


def model(ctx, wd, m, t):
    cfg = os.path.join(wd, f'keys_{m}_{t}.cfg')
    tlc.write_cfg(cfg, constants={'M': m, 'T': t}, invariants=INVS, deadlock=(m <= 5))
    if m <= 5:
        res = tlc.run_tlc('Keys', cfg, workdir=wd, timeout=900)
    else:
        res = tlc.run_tlc('Keys', cfg, workdir=wd, simulate='num=30', depth=3 * m * m, workers=4, seed=ctx.seed + 1,
                          timeout=900)
    ctx.add_tlc(res, f'Keys[M={m},T={t}]{"" if m <= 5 else "-simulate"}')
    if not res.ok:
        ctx.violation(f'C16:model:{res.violation}', {'m': m, 't': t, 'cex_tail': res.cex[-2:]})
        return None
    vals = {re.sub(r'\s+', ' ', v) for v in res.printed if '"keys"' in v[:12]}
    if len(vals) != 1:
        ctx.machinery(f'Keys terminal state not unique/absent for {(m, t)}: {len(vals)}')
    v = tlc.parse_value(vals.pop())
    order = {tuple(k): [tuple(s) for s in seq] for k, seq in v[3].items()}
    holds = {j: {tuple(s) for s in ss} for j, ss in v[4].items()}
    return order, holds


def run(ctx):
    cfgs = [(2, 0), (3, 0), (3, 1), (4, 1), (5, 2)] if ctx.quick else \
        [(2, 0), (3, 0), (3, 1), (4, 0), (4, 1), (5, 0), (5, 1), (5, 2), (6, 1), (6, 2), (7, 2), (7, 3)]
    wd = tlc.make_workdir()
    try:
        for (m, t) in cfgs:
            mod = model(ctx, wd, m, t)
            if mod is None:
                continue
            order, holds = mod
            nsched = (6 if ctx.quick else 20) if m <= 5 else 4
            scheds = [('random%d' % s, lambda s=s: RandomScheduler(ctx.seed * 31 + s, 'mixed')) for s in range(nsched)]
            scheds += [('random-byte%d' % s, lambda s=s: RandomScheduler(ctx.seed * 17 + s, 'byte'))
                       for s in range(2 if m <= 5 else 1)]
            scheds += [('prio-hdr', lambda: PriorityScheduler(list(range(m))[::-1], True, 'hdr', seed=ctx.seed)),
                       ('prio-lazy', lambda: PriorityScheduler(list(range(m)), True, 'all', seed=ctx.seed))]
            for sname, mk in scheds:
                snap = {}
                w = World(m, t, seed=ctx.seed + len(sname))
                try:
                    # (a) transmission order at the client, before anything runs
                    owner = {}
                    for rt in w.rts:
                        for S, key in rt._prss_keys.items():
                            owner[bytes(key)] = S
                    if len(owner) != len(list(itertools.combinations(range(m), m - t))):
                        ctx.violation('C16:keygen:count', {'m': m, 't': t, 'generated': len(owner)})
                    for (i, j), exp in order.items():
                        got = [owner.get(bytes(k)) for k in w.rts[i]._prss_keys_to_peer(j)]
                        if got != exp:
                            ctx.violation('C16:client-order', {'m': m, 't': t, 'conn': (i, j), 'impl': got, 'spec': exp})
                    w.spawn(p_keys, snap)
                    status = w.run(mk(), max_steps=600000)
                finally:
                    w.close()
                ctx.case((m, t, sname))
                ctx.traces += 1
                if status != 'done' or any(w.errors):
                    ctx.violation('C16:run:not-complete', {'m': m, 't': t, 'schedule': sname, 'status': status,
                                                          'errors': w.errors})
                    continue
                for when in ('after_start', 'end'):
                    for j in range(m):
                        have = snap[j][when]
                        if set(have) != holds[j]:
                            ctx.violation(f'C16:holds:{when}', {'m': m, 't': t, 'party': j, 'schedule': sname,
                                                               'extra': sorted(set(have) - holds[j]),
                                                               'missing': sorted(holds[j] - set(have))})
                            continue
                        for S, key in have.items():
                            if owner.get(key) != S or len(key) != 16:
                                ctx.violation(f'C16:key-value:{when}', {'m': m, 't': t, 'party': j, 'subset': S,
                                                                       'belongs_to': owner.get(key), 'schedule': sname})
            ctx.sample({'m': m, 't': t, 'client_order_0_to_last': [list(s) for s in order[(0, m - 1)]],
                        'party_last_holds': len(holds[m - 1])})
        ctx.assumptions += ['secrets.token_bytes yields distinct 128-bit keys',
                            'm = 6, 7: model explored by TLC simulation (30 behaviours), not exhaustively']
    finally:
        tlc.rm_workdir(wd)
