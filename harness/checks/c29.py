"""C29  Secure sorting and selection are correct for every input order.

1. TLC (SortMC): the comparator schedule of Batcher's merge-exchange network, generated exactly as runtime._sort
   generates it, sorts every 0-1 vector for all n <= NMAX (0-1 principle => every input); tournaments return the
   extreme element and the FIRST index for every vector over {0,1,2}^n.
2. binding: (a) the comparator sequence the real _sort performs (recorded through a list that logs the positions
   it reads) equals Sort.Comparators(n) for every n <= 32 (thorough 64); (b) all 0-1 inputs (n <= 6) and all inputs
   with duplicates over {0,1,2} (n <= 4), ascending and reversed, with a key function and with lists as elements,
   go through the real sorted / seclist.sort / min / max / min_max / argmin / argmax on party worlds; TLC
   (SortTrace) checks every party's result.
"""
import itertools
import os
import random
import sys

from .. import tlc
from ..secrun import run_batch
from .c01 import validate

BLANK = {'fn': '', 'n': 0, 'keys': [], 'reverse': False, 'comps': [], 'res': [], 'variant': ''}


class LogList(list):
    def __init__(self, *a):
        super().__init__(*a)
        self.reads = []

    def __getitem__(self, i):
        self.reads.append(i)
        return super().__getitem__(i)


async def evaluate(mpc, e, idx, arg):
    secint = mpc.SecInt(8)
    m = len(mpc.parties)
    keys = e['keys']
    variant = e['variant']
    xs = [mpc.input(secint(v), senders=(idx + k) % m) for k, v in enumerate(keys)]
    fn = e['fn']
    if variant == 'key':
        # sort by key = -x (then the expected order is descending in x): harness passes keys already negated
        items = [(-x) for x in xs]
        key = lambda a: -a
    elif variant == 'lists':
        items = [[x, secint(7)] for x in xs]
        key = lambda a: a[0]
    else:
        items = xs
        key = None
    if fn == 'sorted':
        r = mpc.sorted(items, key=key, reverse=e['reverse'])
    elif fn == 'sort':
        s = mpc.seclist(xs, secint)
        s.sort(reverse=e['reverse'])
        r = list(s)
        return [int(v) for v in await mpc.output(r)]
    elif fn == 'min':
        r = [mpc.min(items, key=key)]
    elif fn == 'max':
        r = [mpc.max(items, key=key)]
    elif fn == 'min_max':
        r = list(mpc.min_max(xs))
        return [int(v) for v in await mpc.output(r)]
    elif fn in ('argmin', 'argmax'):
        i, v = (mpc.argmin if fn == 'argmin' else mpc.argmax)(items, key=key)
        r = [i, v]
    out = []
    for x in r:
        if isinstance(x, list):
            x = x[0]
        out.append(x)
    vals = [int(v) for v in await mpc.output(out)]
    if variant == 'key':
        # items were -x: report in terms of the key values -item = x ... keep items' own values
        vals = [(-v if not (fn.startswith('arg') and j == 0) else v) for j, v in enumerate(vals)]
    return vals


def run(ctx):
    rnd = random.Random(ctx.seed)
    from ..sim.world import load_mpyc, World
    load_mpyc()
    wd = tlc.make_workdir()
    try:
        cfg = os.path.join(wd, 'sortmc.cfg')
        tlc.write_cfg(cfg, constants={'NMAX': 10 if ctx.quick else 14, 'TMAX': 5 if ctx.quick else 7},
                      invariants=['ZeroOne', 'Tournament'])
        res = tlc.run_tlc('SortMC', cfg, workdir=wd, timeout=3000)
        ctx.add_tlc(res, 'SortMC')
        if not res.ok:
            ctx.violation(f'C29:model:{res.violation}', {'cex': res.cex[-1:], 'out': res.stdout[-500:]})
        # (a) comparator sequence of the real _sort
        w = World(1, 0)
        evs = []
        try:
            w._switch(0)
            for n in range(2, (33 if ctx.quick else 65)):
                x = LogList(range(n, 0, -1))
                w.rts[0]._sort(x, lambda a: a)
                reads = x.reads
                comps = [[reads[i], reads[i + 1]] for i in range(0, len(reads), 2)]
                evs.append(dict(BLANK, fn='network', n=n, comps=comps))
                if list(x) != sorted(x):
                    ctx.violation('C29:network:plain-ints-not-sorted', {'n': n})
        finally:
            w.close()
        validate(ctx, wd, evs, 'network', module='SortTrace', invs=('NetOK',), keyfn=lambda e, inv: f'C29:network:{inv}', prop='C29')
        ctx.sample({'n': 6, 'comparators': evs[4]['comps']})
        # (b) secure sorting / selection on worlds
        cases = []
        for n in range(1, 7 if ctx.quick else 9):
            vecs = list(itertools.product((0, 1), repeat=n))
            if ctx.quick and len(vecs) > 24:
                vecs = rnd.sample(vecs, 24)
            for v in vecs:
                for rev in (False, True):
                    cases.append(dict(BLANK, fn='sorted', n=n, keys=list(v), reverse=rev))
        for n in range(1, 5):
            vecs = list(itertools.product((0, 1, 2), repeat=n))
            if ctx.quick:
                vecs = rnd.sample(vecs, min(len(vecs), 14))
            for v in vecs:
                v = [x - 1 for x in v]
                for fn in ('min', 'max', 'min_max', 'argmin', 'argmax', 'sort'):
                    cases.append(dict(BLANK, fn=fn, n=n, keys=list(v), reverse=(fn == 'sort' and n % 2 == 0)))
                cases.append(dict(BLANK, fn='sorted', n=n, keys=list(v), variant='lists'))
                cases.append(dict(BLANK, fn='argmin', n=n, keys=list(v), variant='lists'))
                cases.append(dict(BLANK, fn='sorted', n=n, keys=[-x for x in v], variant='key'))
        for _ in range(4 if ctx.quick else 30):
            n = rnd.randint(7, 12)
            cases.append(dict(BLANK, fn='sorted', n=n, keys=[rnd.randint(-100, 100) for _ in range(n)], reverse=rnd.random() < 0.5))
        worlds = [(1, 0, False), (3, 1, False)] if ctx.quick else [(1, 0, False), (3, 1, False), (3, 1, True), (4, 1, False), (5, 2, True)]
        for (m, t, no_prss) in worlds:
            tag = f'sortm{m}t{t}{"n" if no_prss else "p"}'
            st, results, errors = run_batch(cases, evaluate, m, t, seed=ctx.seed + 1, no_prss=no_prss, chunk=20, max_steps=60000000)
            if st != 'done' or any(errors):
                ctx.violation('C29:run:not-complete', {'config': tag, 'status': st, 'errors': sorted({e[0][:80] for e in errors if e})[:3]})
                continue
            evs = []
            for i, e in enumerate(cases):
                r = [results[p][i] for p in range(m)]
                if any(isinstance(x, dict) for x in r):
                    ctx.violation(f'C29:{e["fn"]}:raises', {'event': e, 'config': tag, 'result': r[0]})
                    continue
                ev = dict(e, res=r)
                if e['variant'] == 'key':
                    # elements are -keys[i] sorted by key(a) = -a = keys[i]: expected order of elements is by ascending key;
                    # results were mapped back to key values by the evaluator
                    pass
                evs.append(ev)
                ctx.case((e['fn'], tuple(e['keys']), e['reverse'], e['variant']))
            validate(ctx, wd, evs, tag, module='SortTrace', invs=('SortOK', 'SelectOK'),
                     keyfn=lambda e, inv: f'C29:{e["fn"]}:{e["variant"] or "plain"}:{inv}', prop='C29')
        ctx.sample({'event': evs[0]})
        ctx.assumptions += ['0-1 principle: a comparator network that sorts all 0-1 inputs sorts all inputs']
    finally:
        tlc.rm_workdir(wd)
