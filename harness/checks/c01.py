"""C01  Secure integer operations are exact in every party configuration.

1. TLC: SecInt register machine (AlwaysInRange) generates compositions; SecInt.Res/ListRes/Pair define every
   operation as Python integer arithmetic.
2. spec -> code: TLC-simulated walks of the register machine are replayed as real programs on real party worlds
   (registers opened after every step on every party).
3. code -> spec: for every operation of the statement and all l-bit operand pairs (l = 4 exhaustively; sampled for
   l = 8 incl. the range extremes) on configurations m in {1..7}, PRSS on/off, default and small security
   parameter, every party's output is recorded and validated by TLC (SecIntTrace: IntOK, AgreeOK).
"""
import json
import os
import random
import re

from .. import tlc
from ..secrun import run_batch, configs

OPS2 = ['add', 'sub', 'mul', 'lt', 'le', 'eq', 'ne', 'ge', 'gt', 'min', 'max', 'gcd', 'lcm']
OPS1 = ['neg', 'abs', 'sgn', 'lsb', 'iszero']
OPSPUB = ['floordiv', 'mod', 'pow', 'eqpub', 'mulpub', 'addpub', 'rsubpub']
BLANK = {'kind': '', 'op': '', 'a': 0, 'b': 0, 'c': 0, 'xs': [], 'ys': [], 'res': []}


def in_range(v, l):
    return -(1 << (l - 1)) <= v < (1 << (l - 1))


def pyres(op, a, b, c):
    import math
    return {'add': a + b, 'sub': a - b, 'mul': a * b, 'neg': -a, 'abs': abs(a), 'min': min(a, b), 'max': max(a, b),
            'gcd': math.gcd(a, b), 'lcm': math.lcm(a, b), 'pow': a ** b if op == 'pow' else 0,
            'mulpub': a * b, 'addpub': a + b, 'rsubpub': b - a}.get(op, 0)


def gen_cases(l, rnd, quick):
    lo, hi = -(1 << (l - 1)), (1 << (l - 1)) - 1
    vals = list(range(lo, hi + 1)) if l <= 4 else sorted({lo, lo + 1, -1, 0, 1, hi - 1, hi} | {rnd.randint(lo, hi) for _ in range(10)})
    cases = []
    pairs = [(a, b) for a in vals for b in vals]
    if quick and len(pairs) > 70:
        pairs = rnd.sample(pairs, 70) + [(lo, lo), (lo, hi), (hi, hi), (hi, lo), (0, 0), (-1, 1)]
    for a, b in pairs:
        for op in OPS2:
            if op in ('add', 'sub', 'mul', 'lcm') and not in_range(pyres(op, a, b, 0), l):
                continue
            if op in ('gcd', 'lcm') and (quick and rnd.random() < 0.8):
                continue
            cases.append(dict(BLANK, kind='scalar', op=op, a=a, b=b))
        cases.append(dict(BLANK, kind='scalar', op='ifelse', a=a, b=b, c=rnd.randint(0, 1)))
        cases.append(dict(BLANK, kind='pair', op='ifswap' + str(rnd.randint(0, 1)), a=a, b=b))
        cases.append(dict(BLANK, kind='pair', op='minmax', a=a, b=b))
        if a in (0, 1) and b in (0, 1):
            cases.append(dict(BLANK, kind='scalar', op='and', a=a, b=b))
            cases.append(dict(BLANK, kind='scalar', op='or', a=a, b=b))
    for a in vals:
        for op in OPS1:
            if op in ('neg', 'abs') and not in_range(pyres(op, a, 0, 0), l):
                continue
            cases.append(dict(BLANK, kind='scalar', op=op, a=a))
        for b in (1, 2, 3, 5, hi):
            cases.append(dict(BLANK, kind='scalar', op='floordiv', a=a, b=b))
            cases.append(dict(BLANK, kind='scalar', op='mod', a=a, b=b))
        for b in (-2, 0, 3):
            for op in ('eqpub', 'mulpub', 'addpub', 'rsubpub'):
                if in_range(pyres(op, a, b, 0), l):
                    cases.append(dict(BLANK, kind='scalar', op=op, a=a, b=b))
        for n in (0, 1, 2, 3):
            if in_range(a ** n, l):
                cases.append(dict(BLANK, kind='scalar', op='pow', a=a, b=n))
    for _ in range(12 if quick else 80):
        n = rnd.randint(1, 5)
        xs = [rnd.randint(-2, 2) for _ in range(n)]
        ys = [rnd.randint(-2, 2) for _ in range(n)]
        import math
        if in_range(sum(xs), l):
            cases.append(dict(BLANK, kind='list', op='sum', xs=xs))
        if in_range(math.prod(xs), l):
            cases.append(dict(BLANK, kind='list', op='prod', xs=xs))
        if in_range(sum(x * y for x, y in zip(xs, ys)), l):
            cases.append(dict(BLANK, kind='list', op='inprod', xs=xs, ys=ys))
        bits = [rnd.randint(0, 1) for _ in range(n)]
        cases.append(dict(BLANK, kind='list', op='all', xs=bits))
        cases.append(dict(BLANK, kind='list', op='any', xs=bits))
        cases.append(dict(BLANK, kind='list', op='minl', xs=xs))
        cases.append(dict(BLANK, kind='list', op='maxl', xs=xs))
    for _ in range(6 if quick else 60):
        a, b = rnd.randint(0, hi), rnd.randint(1, hi)
        cases.append(dict(BLANK, kind='gcdext', op='gcdext', a=rnd.randint(lo + 1, hi), b=rnd.randint(lo + 1, hi)))
        import math
        if math.gcd(a, b) == 1:
            cases.append(dict(BLANK, kind='inverse', op='inverse', a=a, b=b))
    return cases


async def evaluate(mpc, e, idx, l):
    secint = mpc.SecInt(l)
    m = len(mpc.parties)

    def inp(v, k=0):
        return mpc.input(secint(v), senders=(idx + k) % m)
    op, kind = e['op'], e['kind']
    a = inp(e['a'])
    if kind == 'scalar':
        if op in OPS2 or op in ('and', 'or'):
            b = inp(e['b'], 1)
            r = {'add': lambda: a + b, 'sub': lambda: a - b, 'mul': lambda: a * b, 'lt': lambda: a < b,
                 'le': lambda: a <= b, 'eq': lambda: a == b, 'ne': lambda: a != b, 'ge': lambda: a >= b,
                 'gt': lambda: a > b, 'min': lambda: mpc.min(a, b), 'max': lambda: mpc.max(a, b),
                 'gcd': lambda: mpc.gcd(a, b), 'lcm': lambda: mpc.lcm(a, b), 'and': lambda: a & b,
                 'or': lambda: a | b}[op]()       # (& and | of secure integers are defined for bits)
        elif op == 'ifelse':
            c = inp(e['c'], 2)
            b = inp(e['b'], 1)
            r = mpc.if_else(c, a, b)
        elif op in OPS1:
            r = {'neg': lambda: -a, 'abs': lambda: abs(a), 'sgn': lambda: mpc.sgn(a), 'lsb': lambda: mpc.lsb(a),
                 'iszero': lambda: mpc.is_zero(a)}[op]()
        else:
            b = e['b']
            if op == 'eqpub':
                v = await mpc.eq_public(a, secint(b))
                return [int(v)]
            r = {'floordiv': lambda: a // b, 'mod': lambda: a % b, 'pow': lambda: a ** b, 'mulpub': lambda: a * b,
                 'addpub': lambda: b + a, 'rsubpub': lambda: b - a}[op]()
        if op == 'iszero' and idx % 2:
            v = await mpc.is_zero_public(a)
            return [int(v)]
        return [int(await mpc.output(r))]
    if kind == 'pair':
        b = inp(e['b'], 1)
        if op.startswith('ifswap'):
            c = inp(int(op[-1]), 2)
            x, y = mpc.if_swap(c, a, b)
        else:
            x, y = mpc.min_max(a, b)
        return [int(v) for v in await mpc.output([x, y])]
    if kind == 'list':
        xs = [inp(v, k) for k, v in enumerate(e['xs'])]
        if op == 'inprod':
            ys = [inp(v, k + 1) for k, v in enumerate(e['ys'])]
            r = mpc.in_prod(xs, ys)
        else:
            r = {'sum': mpc.sum, 'prod': mpc.prod, 'all': mpc.all, 'any': mpc.any, 'minl': mpc.min, 'maxl': mpc.max}[op](xs)
        return [int(await mpc.output(r))]
    b = inp(e['b'], 1)
    if kind == 'gcdext':
        return [int(v) for v in await mpc.output(list(mpc.gcdext(a, b)))]
    return [int(await mpc.output(mpc.inverse(a, b)))]


def validate(ctx, wd, evs, tag, module='SecIntTrace', invs=('IntOK', 'AgreeOK'), consts=None, keyfn=None, prop='C01'):
    tf = os.path.join(wd, f'ev_{tag}.json')
    json.dump(evs, open(tf, 'w'))
    cfg = os.path.join(wd, f'ev_{tag}.cfg')
    tlc.write_cfg(cfg, spec='TSpec', constants=consts, invariants=list(invs))
    res = tlc.run_tlc(module, cfg, workdir=wd, env={'TRACE_FILE': tf}, timeout=3000, cont=True)
    ctx.add_tlc(res, f'{module}[{tag}]')
    ctx.traces += len(evs)
    if res.generated < len(evs):
        raise tlc.TLCError(f'not all events were evaluated by TLC: {res.generated} < {len(evs)}')
    if not res.ok and not res.all_violations:
        raise tlc.TLCError(f'{module} failed without listing violations:\n' + res.stdout[-2500:])
    for inv, k in res.all_violations:
        e = evs[k - 1]
        key = keyfn(e, inv) if keyfn else f'{prop}:{e["op"]}:{inv}'
        ctx.violation(key, {'event': e, 'config': tag})


def machine_walks(ctx, wd, l, num, seed):
    cfg = os.path.join(wd, 'machine.cfg')
    tlc.write_cfg(cfg, constants={'L': l}, invariants=['AlwaysInRange'])
    d = os.path.join(wd, 'walks')
    os.makedirs(d, exist_ok=True)
    res = tlc.run_tlc('SecIntMachine', cfg, workdir=wd, simulate=f'file={d}/w,num={num}', depth=10, workers=1, seed=seed, timeout=900)
    ctx.add_tlc(res, f'SecInt-machine-simulate[L={l}]')
    walks = []
    for fn in sorted(os.listdir(d)):
        txt = open(os.path.join(d, fn)).read()
        states = re.findall(r'regs = (<<[^\n]*>>)\s*\n/\\ last = (<<[^\n]*>>)', txt)
        if not states:
            states = [(b, a) for a, b in re.findall(r'last = (<<[^\n]*>>)\s*\n/\\ regs = (<<[^\n]*>>)', txt)]
        walk = [(tlc.parse_value(r), tlc.parse_value(la)) for r, la in states]
        if walk:
            walks.append(walk)
        os.unlink(os.path.join(d, fn))
    return walks


async def replay_walk(mpc, walk, idx, l):
    """walk: [(regs, last)], first entry is the initial state"""
    secint = mpc.SecInt(l)
    m = len(mpc.parties)
    regs0 = walk[0][0]
    regs = [mpc.input(secint(v), senders=(idx + k) % m) for k, v in enumerate(regs0)]
    trace = [[int(v) for v in await mpc.output(list(regs))]]
    for (exp, last) in walk[1:]:
        op, i, j, d, v = last
        x = regs[i - 1]
        if op == 'ifge0':
            r = mpc.if_else(x >= 0, regs[j // 10 - 1], regs[j % 10 - 1])
        elif op == 'mod':
            r = x % j
        elif j == 0:
            r = {'neg': lambda: -x, 'abs': lambda: abs(x), 'sgn': lambda: mpc.sgn(x), 'lsb': lambda: mpc.lsb(x),
                 'iszero': lambda: mpc.is_zero(x)}[op]()
        else:
            y = regs[j - 1]
            r = {'add': lambda: x + y, 'sub': lambda: x - y, 'mul': lambda: x * y, 'lt': lambda: x < y,
                 'le': lambda: x <= y, 'eq': lambda: x == y, 'ne': lambda: x != y, 'ge': lambda: x >= y,
                 'gt': lambda: x > y, 'min': lambda: mpc.min(x, y), 'max': lambda: mpc.max(x, y),
                 'gcd': lambda: mpc.gcd(x, y)}[op]()
        regs[d - 1] = r
        trace.append([int(v) for v in await mpc.output(list(regs))])
    return trace


def run(ctx):
    rnd = random.Random(ctx.seed)
    wd = tlc.make_workdir()
    try:
        # ---- spec -> code: machine walks ----
        walks = machine_walks(ctx, wd, 6, 12 if ctx.quick else 80, ctx.seed + 3)
        for (m, t, no_prss) in configs(ctx.quick, ctx.seed)[1:4 if ctx.quick else 10]:
            st, results, errors = run_batch(walks, replay_walk, m, t, seed=ctx.seed, no_prss=no_prss, ctxarg=6, chunk=6)
            if st != 'done' or any(errors):
                ctx.violation('C01:walk:not-complete', {'m': m, 't': t, 'no_prss': no_prss, 'status': st, 'errors': errors})
                continue
            for wi, walk in enumerate(walks):
                exp = [list(r) for r, _ in walk]
                for p in range(m):
                    got = results[p][wi]
                    if got != exp:
                        step = next((i for i in range(len(exp)) if i >= len(got) or got[i] != exp[i]), None) if isinstance(got, list) else None
                        op = walk[step][1][0] if step else 'init'
                        ctx.violation(f'C01:walk:{op}', {'m': m, 't': t, 'no_prss': no_prss, 'party': p,
                                                         'walk': [list(la) for _, la in walk], 'expected': exp, 'got': got})
                        break
                ctx.case(('walk', m, t, no_prss, wi))
            ctx.traces += len(walks)
        if walks:
            ctx.sample({'machine_walk': [list(la) for _, la in walks[0]][1:5]})
        # ---- code -> spec: operation tables ----
        plan = [(4, 30), (8, 30), (4, 14)] if ctx.quick else [(4, 30), (8, 30), (4, 14), (6, 16), (16, 30)]
        for (l, k) in plan:
            cases = gen_cases(l, rnd, ctx.quick)
            for (m, t, no_prss) in configs(ctx.quick, ctx.seed):
                # thorough: complete tables on the first three configurations, samples of 800 on the others (m up to 7)
                cap = 700 if ctx.quick else (10 ** 9 if (m, t, no_prss) in configs(False, ctx.seed)[:3] else 800)
                sub = rnd.sample(cases, cap) if len(cases) > cap else cases
                st, results, errors = run_batch(sub, evaluate, m, t, seed=ctx.seed + l, no_prss=no_prss, sec_param=k, ctxarg=l, max_steps=100000000)
                tag = f'l{l}k{k}m{m}t{t}{"n" if no_prss else "p"}'
                if st != 'done' or any(errors):
                    ctx.violation('C01:run:not-complete', {'config': tag, 'status': st, 'errors': [e[:2] for e in errors]})
                    continue
                evs = []
                for i, e in enumerate(sub):
                    r = [results[p][i] for p in range(m)]
                    ev = dict(e)
                    if any(isinstance(x, dict) for x in r):
                        ctx.violation(f'C01:{e["op"]}:raises', {'event': e, 'config': tag, 'result': r})
                        continue
                    ev['res'] = r
                    evs.append(ev)
                    ctx.case((l, e['kind'], e['op'], e['a'], e['b'], e['c'], str(e['xs']), str(e['ys'])))
                validate(ctx, wd, evs, tag,
                         keyfn=(lambda e, inv: f'C01:{e["op"]}:{inv}'))
        ctx.sample({'event': evs[0]})
        ctx.assumptions += ['security parameter k >= 14: with tiny fields the public zero test inside comparisons fails with '
                            'probability about 1/p per call (blinding factor 0), observed at k = 3; such parameters are '
                            'exercised with explicit failure branches in the C18 machinery only', 'bit lengths <= 16']
    finally:
        tlc.rm_workdir(wd)
