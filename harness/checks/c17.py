"""C17  The PRF is deterministic and its outputs lie in range.

TLC (Prf.tla) specifies everything around SHAKE-128 (an uninterpreted function whose output the harness supplies):
bytes per value, little-endian decoding, reduction modulo the bound, counts, the scalar form and bound 1.  The real
thresha.PRF is called for random keys and inputs, bounds that are and are not powers of two (< 2^22 so that TLC can
redo the arithmetic), n in {None, 0, 1, 2, 5} and -- in the NumPy side venv -- shapes; every call is repeated
(determinism) and compared with the list form; TLC recomputes every output from the digest.
"""
import json
import os
import subprocess
import sys

from .. import tlc
from .thresha_common import NP_PY, have_np

ROOT = os.path.dirname(os.path.dirname(os.path.dirname(os.path.abspath(__file__))))


def run(ctx):
    wd = tlc.make_workdir()
    try:
        allev = []
        for py, tag in ((sys.executable, 'list'),) + (((NP_PY, 'np'),) if have_np() else ()):
            job = {'seed': ctx.seed + len(tag), 'nbounds': 10 if ctx.quick else 120, 'nkeys': 2 if ctx.quick else 4}
            jp, op = os.path.join(wd, f'job_{tag}.json'), os.path.join(wd, f'ev_{tag}.json')
            json.dump(job, open(jp, 'w'))
            pr = subprocess.run([py, os.path.join(ROOT, 'harness', 'workers', 'prf_worker.py'), jp, op],
                                capture_output=True, text=True, timeout=600)
            if pr.returncode != 0:
                ctx.violation(f'C17:impl-raises:{tag}', {'stderr': pr.stderr[-1200:]})
                continue
            d = json.load(open(op))
            evs = d['evs']
            tf = os.path.join(wd, f'tr_{tag}.json')
            json.dump(evs, open(tf, 'w'))
            cfg = os.path.join(wd, f'prf_{tag}.cfg')
            tlc.write_cfg(cfg, spec='TSpec', invariants=['PrfOK'])
            res = tlc.run_tlc('Prf', cfg, workdir=wd, env={'TRACE_FILE': tf}, timeout=3000, cont=True)
            ctx.add_tlc(res, f'Prf[{tag}]')
            ctx.traces += len(evs)
            if res.generated < len(evs):
                raise tlc.TLCError('not all events evaluated')
            if not res.ok and not res.all_violations:
                raise tlc.TLCError('Prf failed without listing violations:\n' + res.stdout[-2000:])
            for inv, k in res.all_violations:
                e = evs[k - 1]
                pow2 = e['bound'] & (e['bound'] - 1) == 0
                ctx.violation(f'C17:{"pow2" if pow2 else "nonpow2"}:n={"None" if e["n"] < 0 else ("shape" if e["shape"] else e["n"])}',
                              {'event': {kk: (v if kk != 'dk' else v[:8]) for kk, v in e.items()}})
            for e in evs:
                ctx.case((tag, e['bound'], e['n'], tuple(e['shape']), tuple(e['dk'][:4])))
            allev += evs
        ctx.sample({kk: (v if kk != 'dk' else v[:12]) for kk, v in allev[40].items()})
        if not have_np():
            ctx.notes['numpy'] = 'side venv missing: shapes not exercised'
        ctx.assumptions += ['SHAKE-128 is trusted (its digest is supplied by the harness)', 'bounds < 2^22: larger bounds (64-bit field orders) are not recomputed by TLC']
    finally:
        tlc.rm_workdir(wd)
