"""C25  Number-theory helpers compute what their gmpy2 counterparts compute.

TLC (NumTheory.tla): primality by trial division, next/previous prime, modular inverse, gcdext with GMP's
normalisation exactly as the stub's docstring states it, Legendre by Euler's criterion, Jacobi by multiplicativity
over the factorisation, Kronecker by its extension rules, isqrt / iroot / is_square by definition, prime powers by
factorisation, rational reconstruction as a relation (a ValueError is demanded exactly when no admissible pair
exists).  The real stubs (MPYC_NOGMPY=1) are run on all pairs with |x|, |y| <= 25 (thorough: 40) plus random
pairs up to 300 (thorough 2000) and on unary arguments up to 2^15, and every recorded result is validated.
"""
import json
import os
import subprocess
import sys

from .. import tlc

ROOT = os.path.dirname(os.path.dirname(os.path.dirname(os.path.abspath(__file__))))
INVS = ['PrimeOK', 'InvertOK', 'GcdextOK', 'SymbolOK', 'RootOK', 'FactorOK', 'FactorBigOK', 'RatrecOK']


def run(ctx):
    wd = tlc.make_workdir()
    try:
        job = {'seed': ctx.seed, 'small': 25 if ctx.quick else 40, 'pair_bound': 300 if ctx.quick else 2000,
               'npairs': 1500 if ctx.quick else 5000, 'unary_bound': 1 << 15, 'unary_all': 400 if ctx.quick else 2000,
               'nunary': 600 if ctx.quick else 3000, 'ratrec_moduli': [101, 257, 1009] if ctx.quick else [101, 257, 1009, 2003, 32749],
               'nratrec': 150 if ctx.quick else 800, 'bigpow': 12 if ctx.quick else 30}
        jp, op = os.path.join(wd, 'job.json'), os.path.join(wd, 'ev.json')
        json.dump(job, open(jp, 'w'))
        try:
            pr = subprocess.run([sys.executable, os.path.join(ROOT, 'harness', 'workers', 'gmpy_worker.py'), jp, op],
                                capture_output=True, text=True, timeout=600)
        except subprocess.TimeoutExpired:
            ctx.violation('C25:impl-hangs', {})
            return
        if pr.returncode != 0:
            ctx.violation('C25:impl-raises', {'stderr': pr.stderr[-1500:]})
            return
        evs = json.load(open(op))['evs']
        cfg = os.path.join(wd, 'nt.cfg')
        tlc.write_cfg(cfg, spec='TSpec', invariants=INVS)
        res = tlc.run_tlc('NumTheory', cfg, workdir=wd, env={'TRACE_FILE': op.replace('ev.json', 'tr.json')}, timeout=3000, cont=True) \
            if False else None
        tf = os.path.join(wd, 'tr.json')
        json.dump(evs, open(tf, 'w'))
        res = tlc.run_tlc('NumTheory', cfg, workdir=wd, env={'TRACE_FILE': tf}, timeout=3000, cont=True)
        ctx.add_tlc(res, 'NumTheory')
        ctx.traces += len(evs)
        if res.generated < len(evs):
            raise tlc.TLCError(f'not all events were evaluated by TLC: {res.generated} < {len(evs)}')
        fns = {}
        for e in evs:
            ctx.case((e['fn'], e['x'], e['y'], e['n'], e['N'], e['D']))
            fns[e['fn']] = fns.get(e['fn'], 0) + 1
        ctx.notes['calls_per_function'] = fns
        if not res.ok and not res.all_violations:
            raise tlc.TLCError('NumTheory failed without listing violations:\n' + res.stdout[-2500:])
        for inv, k in res.all_violations:
            e = evs[k - 1]
            ctx.violation(f'C25:{e["fn"]}:{inv}', {'event': e})
        for fn in ('gcdext', 'kronecker', 'ratrec', 'factor_prime_power'):
            ctx.sample(next(e for e in evs if e['fn'] == fn and (e['x'] > 3 or fn == 'ratrec')))
        ctx.assumptions += ['integers beyond 2^31 are outside TLC and not claimed']
    finally:
        tlc.rm_workdir(wd)
