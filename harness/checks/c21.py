"""C21  Field square roots and quadratic-residue tests are correct.

TLC (FieldFuncs): squares by definition (IsSqr(a) == \\E b : b*b = a over the field built from first principles).
For every element of each configured field (p = 3 mod 4, p = 1 mod 4, extension fields with q = 1 and 3 mod 4,
binary fields) the real is_sqr / sqrt / sqrt(INV=True) are recorded and TLC checks: is_sqr(a) <=> IsSqr(a);
sqrt(a)^2 = a for squares; sqrt(a, INV)^2 * a = 1 for nonzero squares; ZeroDivisionError for the inverse root of 0.
"""
import json
import os
import subprocess
import sys

from .. import tlc

ROOT = os.path.dirname(os.path.dirname(os.path.dirname(os.path.abspath(__file__))))
FIELDS_Q = [(7, 1), (11, 1), (13, 1), (17, 1), (31, 1), (241, 1), (3, 2), (5, 2), (3, 3), (2, 1), (2, 3), (2, 5)]
FIELDS_T = FIELDS_Q + [(5, 1), (19, 1), (29, 1), (101, 1), (503, 1), (1009, 1), (7, 2), (7, 3), (2, 2), (2, 4), (3, 4), (11, 2)]
INVS = ['IsSqrOK', 'SqrtOK', 'InvSqrtOK']
WHAT = 'sqrt'
PROP = 'C21'


def field_run(ctx, wd, p, d, what, invs, prop, module='FieldFuncs'):
    job = {'p': p, 'd': d, 'what': what, 'seed': ctx.seed, 'max_all': 1100}
    tag = f'{p}_{d}'
    jp, op = os.path.join(wd, f'job_{tag}.json'), os.path.join(wd, f'ev_{tag}.json')
    json.dump(job, open(jp, 'w'))
    try:
        pr = subprocess.run([sys.executable, os.path.join(ROOT, 'harness', 'workers', 'field_worker.py'), jp, op],
                            capture_output=True, text=True, timeout=300)
    except subprocess.TimeoutExpired:
        ctx.violation(f'{prop}:impl-hangs', {'field': [p, d], 'what': what, 'timeout_s': 300})
        return
    if pr.returncode != 0:
        ctx.violation(f'{prop}:impl-raises', {'field': [p, d], 'stderr': pr.stderr[-1200:]})
        return
    dd = json.load(open(op))
    evs = dd['evs']
    tf = os.path.join(wd, f'tr_{tag}.json')
    json.dump(evs, open(tf, 'w'))
    with open(os.path.join(wd, f'MCFF_{tag}.tla'), 'w') as f:
        f.write(f'---- MODULE MCFF_{tag} ----\nEXTENDS {module}\nMod == {tlc.to_tla(dd["modc"])}\n====\n')
    cfg = os.path.join(wd, f'ff_{tag}.cfg')
    consts = {'P': p, 'D': d}
    if module == 'FieldFuncs':
        consts['MODC'] = '<- Mod'
    tlc.write_cfg(cfg, spec='TSpec', constants=consts, invariants=invs)
    res = tlc.run_tlc(f'MCFF_{tag}', cfg, workdir=wd, env={'TRACE_FILE': tf}, timeout=3000, cont=True)
    ctx.add_tlc(res, f'{module}[GF({p}^{d})]')
    ctx.traces += len(evs)
    if res.generated < len(evs):
        raise tlc.TLCError(f'not all events were evaluated by TLC: {res.generated} < {len(evs)}')
    for e in evs:
        ctx.case((p, d, e['fn'], e['a'], str(e['vals'])))
    if not res.ok and not res.all_violations:
        raise tlc.TLCError('FieldFuncs failed without listing violations:\n' + res.stdout[-2000:])
    for inv, k in res.all_violations:
        e = evs[k - 1]
        kind = 'prime' if d == 1 else ('binary' if p == 2 else 'oddext')
        ctx.violation(f'{prop}:{kind}:{inv}', {'field': [p, d], 'event': {kk: v for kk, v in e.items() if v not in ([], '', 0, False, -1) or kk == 'a'}})
    ctx.sample({'field': [p, d], 'q': dd['q'], 'exhaustive': dd['exhaustive'], 'event': {kk: v for kk, v in evs[len(evs) // 2].items() if v not in ([], '')}}, cap=5)


def run(ctx):
    wd = tlc.make_workdir()
    try:
        for (p, d) in (FIELDS_Q if ctx.quick else FIELDS_T):
            field_run(ctx, wd, p, d, WHAT, INVS, PROP)
        ctx.exhaustive = True
        ctx.assumptions += ['fields of order <= 1100 exhaustively; the modulus of an extension field is the one finfields selects']
    finally:
        tlc.rm_workdir(wd)
