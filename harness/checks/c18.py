"""C18  Values opened inside protocols are statistically masked.

1. TLC (MaskingMC over Masking.tla): the openings of trunc, sgn (with the public zero test of its comparison), lsb,
   _mod, to_bits and is_zero_public are transcribed as View(secret, mask); for EVERY pair of L-bit secrets TLC computes
   the exact statistical distance of the two views over the whole mask space and checks it against D / 2^K
   (L = 3, K = 3..4; D = slack of bounded random numbers).
2. binding (MaskTrace.tla): on real party worlds (small SecInt / SecFxp types, k = 8 so that values fit TLC) the
   protocols are run on known secrets with call-through wrappers on Runtime.output, _randoms and random_bits:
   ParamOK -- the number of random bits and the bound of the bounded random number the CODE asks for are those of the
   specification; ViewOK -- the value actually opened is secret + offset + a mask from that mask space; IndepOK -- a
   second world with the same random tape and a different secret opens the same mask.
Shares received by a coalition are C14's subject; this check is about the values opened inside protocols.
"""
import json
import math
import os
import random
import sys

from .. import tlc
from ..secrun import run_batch
from .c01 import validate

PROTOS = {'trunc': 'trunc', 'sgn': 'sgn', 'lsb': 'lsb', '_mod': 'mod', 'to_bits': 'tobits', 'is_zero_public': 'zero', '_convert': 'convert'}
BLANK = {'proto': '', 'l': 0, 'bl': 0, 'k': 0, 'f': 0, 'b': 1, 'p': 3, 'a': 0, 'c': 0, 'nbits': 0, 'bound': 0, 'haspair': False, 'pa': 0, 'pc': 0, 'd': 1,
         'cfg': ''}


def caller_proto():
    f = sys._getframe(2)
    while f is not None:
        co = f.f_code
        if co.co_filename.endswith('runtime.py') and co.co_name in PROTOS:
            return co.co_name
        f = f.f_back
    return None


class Hooks:
    """call-through wrappers (installed by the harness only)"""

    def __init__(self, world_getter):
        self.rec = []
        self.saved = []
        self.world = world_getter

    def install(self):
        import asyncio
        rt = sys.modules['mpyc.runtime']
        R = rt.Runtime
        hooks = self
        orig_out, orig_rnds, orig_bits = R.output, R._randoms, R.random_bits

        def output(self_, x, *a, **kw):
            name = caller_proto()
            r = orig_out(self_, x, *a, **kw)
            if name is not None:
                pid = self_.pid

                def done(v):
                    vals = v if isinstance(v, list) else [v]
                    hooks.rec.append(('open', pid, name, [int(getattr(q, 'value', q)) for q in vals]))
                if isinstance(r, asyncio.Future):
                    r.add_done_callback(lambda fut: done(fut.result()) if not fut.cancelled() and fut.exception() is None else None)
                else:
                    done(r)
            return r

        def _randoms(self_, sftype, n, bound=None):
            name = caller_proto()
            if name is not None:
                hooks.rec.append(('bound', self_.pid, name, bound if bound is not None else -1))
            return orig_rnds(self_, sftype, n, bound)

        def random_bits(self_, sftype, n, signed=False):
            name = caller_proto()
            if name is not None and not signed:
                hooks.rec.append(('bits', self_.pid, name, n))
            return orig_bits(self_, sftype, n, signed)
        orig_prfs = R.prfs

        def prfs(self_, bound):
            name = caller_proto()
            if name == '_convert':
                hooks.rec.append(('bound', self_.pid, name, bound))
            return orig_prfs(self_, bound)
        for attr in ('cache_clear', 'cache_info'):
            if hasattr(orig_prfs, attr):
                setattr(prfs, attr, getattr(orig_prfs, attr))
        self.saved = [(R, 'output', orig_out), (R, '_randoms', orig_rnds), (R, 'random_bits', orig_bits), (R, 'prfs', orig_prfs)]
        R.output, R._randoms, R.random_bits, R.prfs = output, _randoms, random_bits, prfs

    def remove(self):
        for obj, name, old in self.saved:
            setattr(obj, name, old)


async def evaluator(mpc, c, idx, arg):
    m = len(mpc.parties)
    if c['type'] == 'int':
        T = mpc.SecInt(c['l'])
        a = T(c['a'])
    else:
        T = mpc.SecFxp(c['l'], c['f'])
        a = T(c['a'] / (1 << c['f']))
    x = mpc.input(a, senders=idx % m)
    pr = c['proto']
    if pr == 'trunc':
        r = mpc.trunc(x, f=c['tf']) if c['type'] == 'int' else mpc.trunc(x)
    elif pr == 'sgn':
        r = mpc.sgn(x, LT=c['flag'] == 1, EQ=c['flag'] == 2)
    elif pr == 'lsb':
        r = mpc.lsb(x)
    elif pr == 'mod':
        r = mpc._mod(x, c['b'])
    elif pr == 'tobits':
        r = mpc.to_bits(x, c['tl']) if c['tl'] else mpc.to_bits(x)
    elif pr == 'convert':
        r = mpc.convert(x, mpc.SecInt(c['l2']))
    elif pr == 'zero':
        z = await mpc.is_zero_public(x)
        return [int(z), T.field.modulus]
    o = await mpc.output(r)
    return [[float(v) for v in o] if isinstance(o, list) else float(o), T.field.modulus]


def gen_cases(rnd, quick):
    cases = []
    n = 3 if quick else 12
    for (typ, l, f) in (('int', 8, 0), ('int', 6, 0), ('fxp', 10, 4)):
        lo, hi = -(1 << (l - 1)), (1 << (l - 1)) - 1
        for _ in range(n):
            def sec():
                return rnd.choice([lo, hi, 0, 1, -1, rnd.randint(lo, hi), rnd.randint(lo, hi)])
            base = {'type': typ, 'l': l, 'f': f}
            cases.append(dict(base, proto='trunc', tf=rnd.randint(1, 4), a=sec(), a2=sec()))
            for flag in (0, 1, 2):
                cases.append(dict(base, proto='sgn', flag=flag, a=sec(), a2=sec()))
            cases.append(dict(base, proto='zero', a=rnd.choice([0, sec(), sec()]), a2=sec()))
            if typ == 'int':
                cases.append(dict(base, proto='convert', l2=rnd.choice([l, l + 2, l + 4]), a=sec(), a2=sec()))
                cases.append(dict(base, proto='lsb', a=sec(), a2=sec()))
                cases.append(dict(base, proto='mod', b=rnd.choice([3, 5, 7, 10, 12]), a=sec(), a2=sec()))
                cases.append(dict(base, proto='tobits', tl=rnd.choice([0, 0, 3, l - 1]), a=sec(), a2=sec()))
    return cases


def first(rec, kind, name, pid=0):
    for r in rec:
        if r[0] == kind and r[1] == pid and r[2] == name:
            return r[3]
    return None


def run(ctx):
    rnd = random.Random(ctx.seed)
    from ..sim.world import load_mpyc
    load_mpyc()
    wd = tlc.make_workdir()
    K = 8
    try:
        # ---- 1. design: exact statistical distance of the views for every pair of secrets
        for consts in ([{'L': 3, 'K': 3, 'F': 2, 'B': 3, 'D': 1, 'P': 7}] if ctx.quick else
                       [{'L': 3, 'K': 3, 'F': 2, 'B': 3, 'D': 1, 'P': 7}, {'L': 3, 'K': 4, 'F': 1, 'B': 5, 'D': 2, 'P': 11},
                        {'L': 4, 'K': 3, 'F': 3, 'B': 3, 'D': 1, 'P': 13}]):
            consts = dict(consts, MODBOUND=(1 << (consts['K'] + consts['L'])) // consts['B'] + 1)
            cfg = os.path.join(wd, 'mask.cfg')
            for inv in ('TruncOK', 'LsbOK', 'ToBitsOK', 'ModOK', 'ZeroOK', 'ConvOK', 'SgnOK'):
                tlc.write_cfg(cfg, init='Init', next_='Next', constants=consts, invariants=[inv])
                res = tlc.run_tlc('MaskingMC', cfg, workdir=wd, timeout=6000)
                ctx.add_tlc(res, f'MaskingMC[{inv},L={consts["L"]},K={consts["K"]},D={consts["D"]}]')
                if not res.ok:
                    ctx.violation(f'C18:model:{inv}', {'constants': consts, 'cex': res.cex[-1:], 'out': res.stdout[-400:]})
        # ---- 2. binding
        hooks = Hooks(None)
        hooks.install()
        try:
            evs = []
            worlds = [(1, 0, False), (3, 1, False), (3, 1, True)] if ctx.quick else [(1, 0, False), (3, 1, False), (3, 1, True), (4, 1, False), (5, 2, False), (5, 2, True)]
            cases = gen_cases(rnd, ctx.quick)
            for (m, t, no_prss) in worlds:
                tag = f'm{m}t{t}{"n" if no_prss else "p"}'
                for ci, c in enumerate(cases):
                    runs = []
                    for which in ('a', 'a2'):
                        hooks.rec.clear()
                        cc = dict(c, a=c[which])
                        st, results, errors = run_batch([cc], evaluator, m, t, seed=ctx.seed + ci, no_prss=no_prss, sec_param=K, chunk=1,
                                                        max_steps=400000, case_timeout=10.0)
                        r0 = (results[0] or [None])[0]
                        if st != 'done' or not isinstance(r0, list):
                            ctx.violation(f'C18:{c["proto"]}:run-failed', {'case': cc, 'config': tag, 'status': st, 'result': str(r0)[:200],
                                                                          'errors': sorted({e[0][-120:] for e in errors if e})[:2]})
                            runs = None
                            break
                        name = [k_ for k_, v in PROTOS.items() if v == c['proto']][0]
                        runs.append({'open': first(hooks.rec, 'open', name), 'bound': first(hooks.rec, 'bound', name),
                                     'bits': first(hooks.rec, 'bits', name), 'p': r0[1], 'a': c[which]})
                    if not runs:
                        continue
                    r1, r2 = runs
                    if r1['open'] is None:
                        ctx.violation(f'C18:{c["proto"]}:no-opening-observed', {'case': c, 'config': tag})
                        continue
                    l = c['l'] + (c['f'] if c['type'] == 'fxp' else 0) if c['proto'] == 'trunc' else c['l']
                    f = (c['tf'] if c['type'] == 'int' else c['f']) if c['proto'] == 'trunc' else 0
                    scale = 1          # plaintext as the integer held in the field
                    ev = dict(BLANK, proto=c['proto'], l=l, bl=c['l'], k=K, f=f, b=c.get('b', 1), p=r1['p'], a=r1['a'] * scale, c=r1['open'][0],
                              nbits=r1['bits'] or 0, bound=r1['bound'] if r1['bound'] not in (None, -1) else 0, cfg=tag,
                              haspair=r2['open'] is not None, pa=r2['a'] * scale, pc=(r2['open'] or [0])[0])
                    if c['proto'] == 'tobits':
                        ev['l'] = c['tl'] or c['l']
                    if c['proto'] == 'convert':
                        ev['d'] = (t + 1) if no_prss else math.comb(m, t)
                        if no_prss:       # the dealers draw below the bound with secrets.randbelow: not observed, take the formula
                            ev['bound'] = (1 << (K + c['l'])) // ev['d'] + 1
                    if c['proto'] == 'sgn' and c.get('flag') is not None:
                        pass
                    evs.append(ev)
                    ctx.case((tag, c['proto'], c['type'], c['l'], c['a'], c['a2'], c.get('b'), c.get('tf'), c.get('tl'), c.get('flag')))
        finally:
            hooks.remove()
        validate(ctx, wd, evs, 'mask', module='MaskTrace', invs=('ParamOK', 'ViewOK', 'IndepOK'),
                 keyfn=lambda e, inv: f'C18:{e["proto"]}:{inv}', prop='C18')
        ctx.sample(next(e for e in evs if e['proto'] == 'trunc'))
        ctx.sample(next(e for e in evs if e['proto'] == 'mod'))
        ctx.assumptions += ['model: L <= 4, K <= 4; binding: bit lengths <= 14 and k = 8 so that all values fit TLC integers; the FIRST opening of each '
                            'protocol is bound (later openings are covered by the model only: sgn\'s zero test)',
                            'bounded random numbers are sums of contributions; uniformity of the honest contribution is C17 / C15']
    finally:
        tlc.rm_workdir(wd)
