"""C09  Every message is labelled uniquely and consumed exactly once.

1. TLC: PCSched (UniqueLabels, ConsumedOnce, Quiet = nothing in flight/buffered/awaited at termination) for
   the constant programs; Wire with a duplicated label (DupDetected: the second frame raises).
2. spec -> code: the duplicate-label Wire graph is replayed edge by edge on the real MessageExchanger.
3. code -> spec: recorded runs (all corpus programs, several configurations and schedules) validated by
   RtTrace: labels pairwise distinct per directed connection (sends and receives), frames found by an
   independent parser on the raw wire bytes equal the sends in order and size, sent = received label sets
   on every connection at the end, pc buffers and byte buffers empty at shutdown.
"""
import os

from .. import tlc
from ..programs import CORPUS, QUICK
from ..runs import corpus_check
from . import c10
from .c08 import mc_program

CLAUSES = {'duplicate-send-label', 'duplicate-recv-label', 'wire-frames-differ-from-sends', 'wire-trailing-bytes',
           'sent-and-received-labels-differ', 'buffers-not-empty-at-shutdown', 'wire-not-checked',
           'send-label-not-context-pc', 'recv-label-not-context-pc', 'hop-not-a-function', 'hop-collision-observed'}


def run(ctx):
    wd = tlc.make_workdir({'MCDup.tla': c10.mc_module('MCDup', c10.MSGS['Dup'], 'Wire')})
    try:
        for p in (['main_mul2', 'main_noawait'] if ctx.quick else ['main_out', 'main_mul2', 'main_noawait', 'main_await', 'main_conv', 'main_prss']):
            res = mc_program(ctx, wd, p, 3, 1, fair=False, terminal=False)
            if not res.ok:
                ctx.violation(f'C09:model:{p}:{res.violation}', {'program': p, 'cex_tail': res.cex[-2:]})
        c10.replay_graph(ctx, 'Dup', c10.MSGS['Dup'], 2, 0, 1, 0, True, wd)
        names = QUICK if ctx.quick else list(CORPUS)
        cfgs = [(3, 1), (4, 1)] if ctx.quick else [(2, 0), (3, 1), (4, 1), (5, 2)]
        corpus_check(ctx, 'C09', names, cfgs, nrand=2 if ctx.quick else 4,
                     budget_events=200000 if ctx.quick else 600000, clauses=CLAUSES, nfam=2)
        # rename C10-keyed violations of the Dup replay
        ctx.assumptions += ['_hop collisions do not occur (observed ones would be reported)']
    finally:
        tlc.rm_workdir(wd)
