"""C15  Pseudorandom secret sharing is consistent for every key assignment.

1. TLC (PrssMC): for each configured field and (m, t), every assignment of PRF outputs to the subsets (all of
   them for (3,1), (4,1) on small fields; all assignments with at most two nonzero entries otherwise): the m
   independently computed shares lie on a polynomial of degree <= t whose constant term is the sum of the PRF
   outputs; zero-shares lie on a polynomial of degree <= 2t with constant term 0.
2. binding: the real pseudorandom_share / pseudorandom_share_zero (and the NumPy variants in the side venv) are
   called for every party with stub PRFs returning enumerated / sampled outputs, batch sizes 0, 1, 3; TLC
   (PrssTrace) checks every recorded share against Share / ZeroShare and, independently, that the recorded
   shares interpolate as stated.
"""
import os

from .. import tlc
from .thresha_common import FIELDS, run_worker, consts, validate_calls, failing_call, have_np


def plan(ctx):
    if ctx.quick:
        return [('GF(5)', 3, 1), ('GF(7)', 4, 1), ('GF(7)', 5, 2), ('GF(2^3)', 3, 1), ('GF(3^2)', 4, 1), ('GF(11)', 2, 0)]
    return [('GF(5)', 1, 0), ('GF(5)', 3, 1), ('GF(5)', 4, 1), ('GF(7)', 2, 0), ('GF(7)', 4, 1), ('GF(7)', 5, 2), ('GF(7)', 6, 2), ('GF(11)', 3, 1),
            ('GF(11)', 7, 3), ('GF(13)', 5, 2), ('GF(2^2)', 3, 1), ('GF(2^3)', 3, 1), ('GF(2^3)', 5, 2), ('GF(3^2)', 4, 1), ('GF(3^2)', 6, 2)]


def run(ctx):
    wd = tlc.make_workdir()
    try:
        for (fname, m, t) in plan(ctx):
            P, D, mod, modint = FIELDS[fname]
            q = P ** D
            import math
            nsub = math.comb(m, t)
            tag = f'{fname}-{m}-{t}'.replace('(', '').replace(')', '').replace('^', 'e')
            full = q ** nsub <= (3000 if ctx.quick else 100000)
            sparse_size = 1 + nsub * (q - 1) + math.comb(nsub, 2) * (q - 1) ** 2
            if full or sparse_size <= (3000 if ctx.quick else 7000):
                cfg = os.path.join(wd, f'mc_{tag}.cfg')
                tlc.write_cfg(cfg, spec='PSpec', constants=consts(fname, m, t, {'Sample': 0 if full else 1}),
                              invariants=['PrssConsistent', 'PrssZeroConsistent'])
                res = tlc.run_tlc('PrssMC', cfg, workdir=wd, timeout=3000)
                ctx.add_tlc(res, f'PrssMC[{tag},{"all" if full else "sparse"}]')
                if not res.ok:
                    ctx.violation(f'C15:model:{res.violation}', {'field': fname, 'm': m, 't': t, 'cex': res.cex[-1:]})
            for use_np in [False] + ([True] if have_np() else []):
                job = {'what': 'prss', 'p': P, 'd': D, 'modint': modint, 'm': m, 't': t, 'np': use_np,
                       'seed': ctx.seed, 'budget': 150 if ctx.quick else 800}
                d, err = run_worker(wd, job, tag + ('np' if use_np else ''))
                if d is None:
                    ctx.violation(f'C15:impl-raises:{"np" if use_np else "list"}', {'field': fname, 'm': m, 't': t, 'stderr': err})
                    continue
                calls = d['calls']
                res = validate_calls(ctx, wd, 'MCPrss', calls, fname, m, t,
                                     ['ShareOK', 'ZeroOK', 'ShareInterp', 'ZeroInterp'], tag + ('np' if use_np else ''))
                ctx.traces += len(calls)
                for c in calls:
                    ctx.case((fname, m, t, use_np, c['kind'], c['n'], str(c['r'])[:80]))
                if not res.ok:
                    k, call = failing_call(res, calls)
                    ctx.violation(f'C15:trace:{res.violation}:{"np" if use_np else "list"}',
                                  {'field': fname, 'm': m, 't': t, 'call_index': k, 'call': call})
            ctx.sample({'field': fname, 'm': m, 't': t, 'call': calls[0]}, cap=4)
        ctx.assumptions += ['PRF outputs are arbitrary field elements (every assignment enumerated or sampled)']
    finally:
        tlc.rm_workdir(wd)
