"""C32  reduce and accumulate agree with functools/itertools.

1. TLC (Reduce.tla): the pairing loop of reduce and the Sklansky / Brent-Kung networks of accumulate are
   transcribed over the free monoid (words under concatenation: the universal associative, non-commutative
   operation); for every n <= NMAX the result is the left fold / all prefixes and the depth is ceil(log2 n)
   (reduce, Sklansky) resp. max(2k-2, k) for n = 2^k and <= 2 ceil(log2 n) (Brent-Kung).
2. binding: the real functions are run with tuple concatenation and a depth-tracking wrapper for all n = 0..N, with
   and without initial value, both methods (and the default heuristic); TLC (ReduceTrace) checks results and that
   the observed depth equals the transcription's depth.
"""
import json
import os
import sys

from .. import tlc
from .c01 import validate


class W:
    """word with depth"""
    __slots__ = ('w', 'd')

    def __init__(self, w, d=0):
        self.w, self.d = w, d


def f(a, b):
    return W(a.w + b.w, max(a.d, b.d) + 1)


def run(ctx):
    from ..sim.world import load_mpyc, World
    load_mpyc()
    mpctools = sys.modules['mpyc.mpctools']
    wd = tlc.make_workdir()
    try:
        nmax = 33 if ctx.quick else 130
        cfg = os.path.join(wd, 'red.cfg')
        tlc.write_cfg(cfg, constants={'NMAX': nmax}, invariants=['ReduceRight', 'SklanskyRight', 'BrentKungRight'])
        res = tlc.run_tlc('Reduce', cfg, workdir=wd, timeout=3000)
        ctx.add_tlc(res, f'Reduce[n<={nmax}]')
        if not res.ok:
            ctx.violation(f'C32:model:{res.violation}', {'out': res.stdout[-800:]})
        w = World(1, 0)           # accumulate's default heuristic reads runtime.options
        evs = []
        try:
            w._switch(0)
            N = 40 if ctx.quick else 140
            for n in range(0, N + 1):
                for hasinit in (False, True):
                    items = [W((i,)) for i in range(1, n + 1)]
                    tot = n
                    if hasinit and n >= 1:
                        # initial value = item 1, the iterable = items 2..n
                        init, rest = items[0], items[1:]
                    elif hasinit:
                        continue
                    else:
                        init, rest = None, items
                    try:
                        r = mpctools.reduce(f, rest) if init is None else mpctools.reduce(f, rest, init)
                        evs.append({'fn': 'reduce', 'n': tot, 'init': hasinit, 'method': '', 'res': [list(r.w)], 'depth': r.d, 'exc': ''})
                    except Exception as exc:
                        evs.append({'fn': 'reduce', 'n': tot, 'init': hasinit, 'method': '', 'res': [], 'depth': 0, 'exc': type(exc).__name__})
                    for method in ('Sklansky', 'Brent-Kung', None):
                        kw = {} if init is None else {'initial': init}
                        if method:
                            kw['method'] = method
                        r = list(mpctools.accumulate(rest, f, **kw))
                        mname = method or ('Brent-Kung' if (w.rts[0].options.no_prss and tot >= 32) else 'Sklansky')
                        evs.append({'fn': 'accumulate', 'n': tot, 'init': hasinit, 'method': mname,
                                    'res': [list(x.w) for x in r], 'depth': max([x.d for x in r] or [0]), 'exc': ''})
                    ctx.case((n, hasinit))
            # cross-check against functools / itertools with a non-commutative associative operation on strings
            import functools
            import itertools
            for n in range(1, 25):
                xs = [chr(97 + i % 26) for i in range(n)]
                if mpctools.reduce(lambda a, b: a + b, xs) != functools.reduce(lambda a, b: a + b, xs) or \
                        list(mpctools.accumulate(xs, lambda a, b: a + b)) != list(itertools.accumulate(xs, lambda a, b: a + b)):
                    ctx.violation('C32:strings', {'n': n})
        finally:
            w.close()
        validate(ctx, wd, evs, 'mpctools', module='ReduceTrace', invs=('RedOK', 'AccOK'), consts={'NMAX': 1},
                 keyfn=lambda e, inv: f'C32:{e["fn"]}:{e["method"]}:{inv}', prop='C32')
        ctx.sample(evs[9])
        ctx.sample(evs[10])
        ctx.exhaustive = True
        ctx.assumptions += ['free monoid argument: a result that is right for concatenation of distinct letters is right for every associative function']
    finally:
        tlc.rm_workdir(wd)
