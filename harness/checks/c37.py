"""C37  Secure NumPy arrays agree with plain NumPy and with secure scalars.

The specification is Arrays.tla: n-dimensional arrays with NumPy's semantics from first principles (row-major data,
broadcasting, reductions along an axis, matmul, reshaping, stacking, sorting, indexing).  In the NumPy side venv, on
simulated party worlds, secure integer, fixed-point and prime-field arrays of every shape up to 3 dimensions and 12
elements (broadcast pairs included) are created by conversion and by mpc.input from varying senders; each operation is
applied (a) to the secure arrays, (b) to plain NumPy arrays and, for elementwise operations, (c) element by element to
secure scalars.  ArraysTrace.tla validates all three against the specification: exact for integers and field elements,
within a stated number of units for fixed-point products.  Array-based sharing, recombination and PRSS (thresha.np_*)
are bound to the list-based versions by C11 / C12 / C15 / C17, which run both variants on the same inputs.
"""
import json
import os
import random

from .. import tlc
from .. import npchild

NONE = {'sh': [-1], 'd': []}
NOAXIS = -99
ELEM2 = ['add', 'sub', 'mul', 'lt', 'le', 'gt', 'ge', 'eq', 'ne', 'minimum', 'maximum']
ELEM1 = ['neg', 'abs', 'sgn']
KEEPDIMS = ('amin', 'amax', 'argmin', 'argmax')      # reductions whose np_ method has a keepdims parameter
REDUCE = ['sum', 'prod', 'all', 'any', 'amin', 'amax', 'argmin', 'argmax']
LANE = ['cumsum', 'sort', 'flip', 'roll']
SHAPE = ['reshape', 'flatten', 'transpose', 'swapaxes', 'expand_dims', 'squeeze', 'getitem', 'slice', 'copy', 'io']
JOIN = ['concatenate', 'stack', 'vstack', 'hstack', 'append']
FLD_OK = {'div', 'pow', 'add', 'sub', 'mul', 'neg', 'eq', 'ne', 'matmul', 'outer', 'sum', 'prod', 'flip', 'roll', 'where'} | set(SHAPE) | set(JOIN)
SHAPES = [[], [1], [2], [3], [4], [1, 3], [3, 1], [2, 2], [2, 3], [3, 2], [1, 1], [2, 1, 2], [2, 2, 2], [1, 2, 3], [2, 3, 1], [3, 4], [2, 1, 3]]


def bshape(s1, s2):
    n = max(len(s1), len(s2))
    a, b = [1] * (n - len(s1)) + s1, [1] * (n - len(s2)) + s2
    if any(x != y and x != 1 and y != 1 for x, y in zip(a, b)):
        return None
    return [y if x == 1 else x for x, y in zip(a, b)]


def size(sh):
    n = 1
    for x in sh:
        n *= x
    return n


def gen_cases(rnd, kind, n_per_fn, P=0, F=0):
    cases = []

    def vals(sh, lo=-6, hi=6, nz=False):
        if kind == 'fld':
            lo, hi = 0, P - 1
        out = []
        for _ in range(size(sh)):
            v = rnd.randint(lo, hi)
            while nz and v == 0:
                v = rnd.randint(lo, hi)
            out.append(v)
        return out

    def arr(sh, **kw):
        return {'sh': list(sh), 'd': vals(sh, **kw)}

    def add(fn, A, B=None, C=None, axis=0, k=0, k2=0, axes=(), sign=1):
        if kind == 'fld' and fn.replace('_t', '') not in FLD_OK:
            return
        cases.append({'fn': fn, 'A': A, 'B': B or {'sh': [], 'd': [0]}, 'C': C or {'sh': [], 'd': [0]}, 'axis': axis, 'k': k, 'k2': k2, 'axes': list(axes), 'sign': sign,
                      'how': rnd.choice(['conv', 'input']), 'kind': kind})
    pairs = [(a, b) for a in SHAPES for b in SHAPES if bshape(a, b) is not None and size(bshape(a, b)) <= 12]
    for fn in ELEM2:
        for (s1, s2) in rnd.sample(pairs, n_per_fn):
            add(fn, arr(s1), arr(s2))
    for fn in ELEM1:
        for sh in rnd.sample(SHAPES, min(len(SHAPES), n_per_fn)):
            add(fn, arr(sh))
    for (s1, s2) in rnd.sample(pairs, n_per_fn):
        if kind == 'fld':
            add('div', arr(s1), arr(s2, nz=True))
        if kind != 'fxp':
            add('pow', arr(s1, lo=-3, hi=3), k=rnd.randint(0, 3))
        if kind == 'int':
            add('lshift', arr(s1), k=rnd.randint(0, 4))
            add('lsb', arr(s1))
            add('tobits', arr(s1), k=rnd.choice([4, 16]))
    nd = [s for s in SHAPES if len(s) >= 1]
    for fn in REDUCE:
        for sh in rnd.sample(nd, min(len(nd), n_per_fn)):
            ax = rnd.choice([NOAXIS] + list(range(-len(sh), len(sh))))
            if fn == 'prod':
                A = arr(sh, lo=-2, hi=2)
                if kind == 'fxp' and ((ax == NOAXIS and size(sh) != 2) or (ax != NOAXIS and sh[ax] != 2)):
                    continue        # fixed-point products of two factors only (scale 2^(2F))
            elif fn in ('all', 'any'):
                A = {'sh': list(sh), 'd': [rnd.choice([0, 1, 1]) << (F if kind == 'fxp' else 0) for _ in range(size(sh))]}
            else:
                A = arr(sh)
            add(fn, A, axis=ax, k2=rnd.choice([0, 0, 1]) if fn in KEEPDIMS else 0)       # k2 = 1: keepdims=True
    if kind != 'fld':
        for fn in ('argmin', 'argmax', 'amin', 'amax', 'sum'):
            add(fn, arr([2, 2, 2]), axis=0)       # reductions along an axis that is not one of the last two
            add(fn, arr([2, 1, 3]), axis=-3)
            if fn in KEEPDIMS:
                add(fn, arr([2, 2, 2]), axis=0, k2=1)
                add(fn, arr([2, 3, 2]), axis=1, k2=1)
    # reductions over a tuple of axes
    for fn in ('sum', 'prod', 'all', 'any', 'amin', 'amax'):
        for sh in rnd.sample([s_ for s_ in SHAPES if len(s_) >= 2], min(n_per_fn, 4)):
            k_ = rnd.randint(2, len(sh))
            axes = sorted(rnd.sample(range(len(sh)), k_), reverse=True)
            if fn == 'prod':
                if kind == 'fxp':
                    continue
                A = arr(sh, lo=-2, hi=2)
            elif fn in ('all', 'any'):
                A = {'sh': list(sh), 'd': [rnd.choice([0, 1, 1]) << (F if kind == 'fxp' else 0) for _ in range(size(sh))]}
            else:
                A = arr(sh)
            add(fn + '_t', A, axes=axes, sign=rnd.choice([1, -1]))
    for fn in LANE:
        for sh in rnd.sample(nd, min(len(nd), n_per_fn)):
            ax = rnd.choice([NOAXIS] + list(range(-len(sh), len(sh))))
            if fn == 'sort' and ax == NOAXIS and len(sh) > 1:
                ax = -1
            add(fn, arr(sh), axis=ax, k=rnd.randint(-3, 3))
    for _ in range(n_per_fn):
        sh = rnd.choice(nd)
        n = size(sh)
        news = rnd.choice([s for s in SHAPES if size(s) == n and len(s) >= 1])
        add('reshape', arr(sh), B={'sh': [len(news)], 'd': list(news)})
        add('flatten', arr(rnd.choice(SHAPES)))
        add('transpose', arr(rnd.choice(nd)))
        sh2 = rnd.choice([s for s in SHAPES if len(s) >= 2])
        a1, a2 = rnd.sample(range(len(sh2)), 2)
        add('swapaxes', arr(sh2), k=a1, k2=a2)
        sh3 = rnd.choice(SHAPES)
        add('expand_dims', arr(sh3), axis=rnd.randint(-len(sh3) - 1, len(sh3)))
        add('squeeze', arr(rnd.choice(SHAPES)))
        sh4 = rnd.choice(nd)
        add('getitem', arr(sh4), k=rnd.randrange(sh4[0]))
        lo = rnd.randrange(sh4[0] + 1)
        add('slice', arr(sh4), k=lo, k2=rnd.randint(lo, sh4[0]))
        add('copy', arr(rnd.choice(SHAPES)))
        add('io', arr(rnd.choice(SHAPES)))
        # joins
        sh5 = rnd.choice(nd)
        ax = rnd.randrange(len(sh5))
        shb = list(sh5)
        shb[ax] = rnd.randint(1, 2)
        if size(sh5) + size(shb) <= 14:
            add('concatenate', arr(sh5), arr(shb), axis=rnd.choice([ax, ax - len(sh5)]))
        if size(sh5) <= 6:
            add('stack', arr(sh5), arr(sh5), axis=rnd.randint(-len(sh5) - 1, len(sh5)))
            add('vstack', arr(sh5), arr(sh5))
            add('hstack', arr(sh5), arr(sh5))
        add('append', arr(rnd.choice(SHAPES)), arr(rnd.choice(SHAPES)))
        # matmul / outer
        n1, n2, n3 = rnd.randint(1, 3), rnd.randint(1, 3), rnd.randint(1, 3)
        for (s1, s2) in rnd.sample([([n1], [n1]), ([n1, n2], [n2, n3]), ([n1, n2], [n2]), ([n1], [n1, n3])], 2):
            add('matmul', arr(s1, lo=-4, hi=4), arr(s2, lo=-4, hi=4))
        add('outer', arr([n1], lo=-4, hi=4), arr([n2], lo=-4, hi=4))
        # where
        s1, s2 = rnd.choice(pairs)
        sc = rnd.choice([s for s in SHAPES if bshape(s, bshape(s1, s2)) is not None and size(bshape(s, bshape(s1, s2))) <= 12])
        add('where', arr(s1), arr(s2), C={'sh': list(sc), 'd': [rnd.randint(0, 1) for _ in range(size(sc))]})
    return cases


async def evaluator(mpc, c, idx, arg):
    import numpy as np
    kind, F, P = c['kind'], arg['F'], arg['P']
    m = len(mpc.parties)
    if kind == 'int':
        T = mpc.SecInt(16)
        conv = lambda v: v
        back = lambda v: int(v)
        dt = int
    elif kind == 'fxp':
        T = mpc.SecFxp(24, F)
        conv = lambda v: v / (1 << F)
        back = lambda v: int(round(float(v) * (1 << F)))
        dt = float
    else:
        T = mpc.SecFld(P)
        conv = lambda v: v
        back = lambda v: int(v) % P
        dt = int

    def plain(X):
        a = np.array([conv(v) for v in X['d']], dtype=dt if kind != 'fld' else object).reshape(X['sh'])
        return a

    def sec(X, k=0):
        a = np.array([conv(v) for v in X['d']], dtype=dt).reshape(X['sh'])
        s = T.array(a)
        if c['how'] == 'input':
            s = mpc.input(s, senders=(idx + k) % m)
        return s

    def scal(X, k=0):
        return [mpc.input(T(conv(v)), senders=(idx + k) % m) if c['how'] == 'input' else T(conv(v)) for v in X['d']]
    fn, ax, k, k2 = c['fn'], c['axis'], c['k'], c['k2']
    axis = None if ax == NOAXIS else ax
    pa, pb, pc = plain(c['A']), plain(c['B']), plain(c['C'])
    sa = sec(c['A'])
    sb = sec(c['B'], 1) if fn in ELEM2 + JOIN + ['matmul', 'outer', 'where', 'div'] else None
    import operator
    ops2 = {'add': operator.add, 'sub': operator.sub, 'mul': operator.mul, 'lt': operator.lt, 'le': operator.le, 'gt': operator.gt,
            'ge': operator.ge, 'eq': operator.eq, 'ne': operator.ne, 'minimum': np.minimum, 'maximum': np.maximum}

    def apply(a, b, cc, secure):
        if fn in ops2:
            return ops2[fn](a, b)
        if fn == 'neg':
            return -a
        if fn == 'div':
            return a / b
        if fn == 'pow':
            return a ** k
        if fn == 'lshift':
            return a << k
        if fn == 'lsb':
            return mpc.np_lsb(a) if secure else a % 2
        if fn == 'tobits':
            return mpc.np_to_bits(a, k) if secure else ((a[..., np.newaxis] % (1 << k)) >> np.arange(k)) % 2
        if fn == 'abs':
            return np.absolute(a)
        if fn == 'sgn':
            return mpc.np_sgn(a) if secure else np.sign(a)
        if fn == 'matmul':
            return a @ b
        if fn == 'outer':
            return np.outer(a, b)
        if fn in ('sum', 'prod', 'all', 'any', 'amin', 'amax', 'argmin', 'argmax'):
            return getattr(np, fn)(a, axis=axis, keepdims=True) if k2 == 1 else getattr(np, fn)(a, axis=axis)
        if fn.endswith('_t'):
            # the same axes, given as negative numbers for sign = -1
            tup = tuple(x if c['sign'] == 1 else x - a.ndim for x in c['axes'])
            return getattr(np, fn[:-2])(a, axis=tup)
        if fn == 'cumsum':
            return getattr(np, fn)(a, axis=axis)
        if fn == 'sort':
            return np.sort(a, axis=axis)
        if fn == 'flip':
            return np.flip(a, axis=axis)
        if fn == 'roll':
            return np.roll(a, k, axis=axis)
        if fn == 'reshape':
            return np.reshape(a, tuple(c['B']['d']))
        if fn == 'flatten':
            return a.flatten()
        if fn == 'transpose':
            return np.transpose(a)
        if fn == 'swapaxes':
            return np.swapaxes(a, k, k2)
        if fn == 'expand_dims':
            return np.expand_dims(a, ax)
        if fn == 'squeeze':
            return np.squeeze(a)
        if fn == 'getitem':
            return a[k]
        if fn == 'slice':
            return a[k:k2]
        if fn == 'copy':
            return a.copy()
        if fn == 'io':
            return a
        if fn == 'concatenate':
            return np.concatenate((a, b), axis=ax)
        if fn == 'stack':
            return np.stack((a, b), axis=ax)
        if fn == 'vstack':
            return np.vstack((a, b))
        if fn == 'hstack':
            return np.hstack((a, b))
        if fn == 'append':
            return np.append(a, b)
        if fn == 'where':
            return np.where(cc, a, b)
        raise ValueError(fn)

    def enc(x, isbit=False):
        a = np.array(x)
        if a.dtype == bool:
            a = a.astype(int)
        flat = [v for v in a.flatten().tolist()]
        if fn in ('lt', 'le', 'gt', 'ge', 'eq', 'ne', 'all', 'any', 'argmin', 'argmax', 'all_t', 'any_t'):
            return {'sh': list(a.shape), 'd': [int(round(float(v))) if not hasattr(v, 'value') else int(v) for v in flat]}
        return {'sh': list(a.shape), 'd': [back(v) for v in flat]}
    out = {}
    # plain NumPy (fields: the library's own field arrays)
    try:
        if kind == 'fld':
            fa, fb = T.field.array(pa.astype(object)), T.field.array(pb.astype(object))
            fcn = pc != 0
            rn = apply(fa, fb, fcn, False)
            rn = rn.value if hasattr(rn, 'value') else rn
        else:
            rn = apply(pa, pb, pc != 0, False)
        if kind == 'fxp' and fn == 'sgn':
            rn = rn.astype(float)
        out['N'] = enc(rn)
    except Exception as exc:
        out['N'] = NONE
        out['nexc'] = type(exc).__name__ + ':' + str(exc)[:60]
    # secure arrays
    if fn == 'where':
        sc = sec(dict(c['C'], d=c['C']['d']), 2) if kind != 'fxp' else T.array(np.array(c['C']['d'], dtype=float).reshape(c['C']['sh']))
        r = apply(sa, sb, sc, True)
        r = mpc.np_where(sc, sa, sb) if r is None else r
    else:
        r = apply(sa, sb, None, True)
    if isinstance(r, tuple):
        r = r[0]
    o = await mpc.output(r)
    o = o.value if (kind == 'fld' and hasattr(o, 'value')) else o
    out['R'] = enc(o)
    # elementwise secure scalars
    out['S'] = NONE
    if fn in ops2 and fn not in ('minimum', 'maximum') or fn in ('neg', 'abs'):
        xa, xb = scal(c['A']), scal(c['B'], 1)
        rs = bshape(c['A']['sh'], c['B']['sh']) if fn in ops2 else c['A']['sh']
        ia = np.broadcast_to(np.arange(len(xa)).reshape(c['A']['sh']), rs).flatten()
        ib = np.broadcast_to(np.arange(len(xb)).reshape(c['B']['sh']), rs).flatten() if fn in ops2 else ia
        res = []
        for i, j in zip(ia, ib):
            if fn in ops2:
                res.append(ops2[fn](xa[i], xb[j]))
            elif fn == 'neg':
                res.append(-xa[i])
            else:
                res.append(abs(xa[i]))
        vals = await mpc.output(res) if res else []
        out['S'] = enc(np.array([v if not hasattr(v, 'value') else int(v) for v in vals], dtype=object).reshape(rs))
    return out


def np_events(job, col):
    from ..sim.world import load_mpyc
    from ..secrun import run_batch
    load_mpyc()
    rnd = random.Random(col.seed + 37)
    evs = []
    for (kind, P, F, m, t, no_prss, nper) in job['plan']:
        cases = gen_cases(rnd, kind, nper, P, F)
        tag = f'{kind}{P or ""}m{m}t{t}{"n" if no_prss else "p"}'
        st, results, errors = run_batch(cases, evaluator, m, t, seed=col.seed + m, no_prss=no_prss, ctxarg={'F': F, 'P': P}, chunk=1,
                                        max_steps=200000000, case_timeout=8.0)
        if not all(len(results[q] or []) == len(cases) for q in range(m)):
            col.violation('C37:run:not-complete', {'config': tag, 'status': st, 'errors': sorted({e[0][-160:] for e in errors if e})[:3]})
            continue
        errtxt = sorted({x[-160:] for e in errors for x in e})
        for i, c in enumerate(cases):
            rs = [results[q][i] for q in range(m)]
            ndA, ndB = len(c['A']['sh']), len(c['B']['sh'])
            shape_cls = f'{ndA}d' + (f'x{ndB}d' if c['fn'] in ELEM2 + JOIN + ['matmul', 'where'] else '') + ('' if c['axis'] != NOAXIS else ':noaxis')
            if c['axis'] != NOAXIS and ndA >= 3 and c['axis'] % ndA < ndA - 2:
                shape_cls += ':axis<ndim-2'
            if any('exc' in r for r in rs):
                col.violation(f'C37:{c["fn"]}:{kind}:raises:{shape_cls}', {'case': c, 'config': tag, 'result': rs[0], 'exceptions_in_world': errtxt[:3]})
                continue
            if any(r != rs[0] for r in rs):
                col.violation(f'C37:{c["fn"]}:{kind}:parties-disagree', {'case': c, 'config': tag, 'result': [str(r)[:200] for r in rs]})
                continue
            r = rs[0]
            col.case((tag, c['fn'], str(c['A']), str(c['B']), c['axis'], c['k'], c['k2']))
            n_terms = {'matmul': (c['A']['sh'] or [1])[-1], 'prod': 2}.get(c['fn'], 1)
            evs.append({'fn': c['fn'], 'A': c['A'], 'B': c['B'], 'C': c['C'], 'axis': c['axis'], 'axes': c['axes'], 'k': c['k'], 'k2': c['k2'], 'kind': kind,
                        'P': P or 1, 'F': F, 'tol': 2 * n_terms + 1, 'R': r['R'], 'N': r['N'], 'S': r['S'], 'cfg': tag, 'cls': shape_cls})
    return evs


PLAN_Q = [('int', 0, 0, 1, 0, False, 8), ('int', 0, 0, 3, 1, False, 6), ('fxp', 0, 6, 1, 0, False, 6), ('fxp', 0, 6, 3, 1, False, 5),
          ('fld', 11, 0, 3, 1, False, 6), ('fld', 101, 0, 1, 0, False, 4), ('int', 0, 0, 4, 1, True, 3), ('fxp', 0, 4, 3, 1, True, 3)]
PLAN_T = [('int', 0, 0, 1, 0, False, 12), ('int', 0, 0, 3, 1, False, 8), ('int', 0, 0, 3, 1, True, 4), ('fxp', 0, 6, 1, 0, False, 8),
          ('fxp', 0, 6, 3, 1, False, 5), ('fxp', 0, 4, 3, 1, True, 3), ('fld', 11, 0, 3, 1, False, 6), ('fld', 101, 0, 1, 0, False, 6),
          ('fld', 7, 0, 4, 1, True, 4), ('int', 0, 0, 5, 2, False, 3), ('fxp', 0, 8, 4, 1, False, 3)]


def run(ctx):
    wd = tlc.make_workdir()
    try:
        evs = npchild.call(ctx, 'harness.checks.c37.np_events', {'plan': PLAN_Q if ctx.quick else PLAN_T}, timeout=10000)
        if not evs:
            return
        tf = os.path.join(wd, 'arr_tr.json')
        json.dump(evs, open(tf, 'w'))
        cfg = os.path.join(wd, 'arr.cfg')
        tlc.write_cfg(cfg, spec='TSpec', invariants=['SecOK', 'OracleOK', 'ScalarOK'])
        res = tlc.run_tlc('ArraysTrace', cfg, workdir=wd, env={'TRACE_FILE': tf}, timeout=6000, cont=True)
        ctx.add_tlc(res, 'ArraysTrace')
        ctx.traces += len(evs)
        if res.generated < len(evs):
            raise tlc.TLCError(f'not all events were evaluated by TLC: {res.generated} < {len(evs)}')
        if not res.ok and not res.all_violations:
            raise tlc.TLCError('ArraysTrace failed without listing violations:\n' + res.stdout[-2500:])
        for inv, k in res.all_violations:
            e = evs[k - 1]
            ctx.violation(f'C37:{e["fn"]}:{e["kind"]}:{inv}:{e["cls"]}', {'event': e})
        fns = {}
        for e in evs:
            fns[e['fn']] = fns.get(e['fn'], 0) + 1
        ctx.notes['events_per_function'] = fns
        ctx.sample(next(e for e in evs if e['fn'] == 'matmul'))
        ctx.sample(next(e for e in evs if e['fn'] == 'add' and e['kind'] == 'fxp'))
        ctx.assumptions += ['arrays of at most 3 dimensions and 14 elements, entries in -6..6 (fields: all of GF(p)); fixed-point products within '
                            '2n+1 units of 2^-F of the exact result (n terms); prime fields only']
    finally:
        tlc.rm_workdir(wd)
