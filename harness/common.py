"""Shared check plumbing: context, violations vs known findings, evidence files."""
import fnmatch
import json
import os
import sys
import time
import traceback

ROOT = os.path.dirname(os.path.dirname(os.path.abspath(__file__)))
# (VERIF_EVIDENCE_DIR: runs against a tree other than /repo -- seeded-change evaluations -- must not overwrite the committed evidence)
EVID = os.environ.get('VERIF_EVIDENCE_DIR') or os.path.join(ROOT, 'evidence')
OUT = os.path.join(ROOT, 'out')
KNOWN = os.path.join(ROOT, 'known_findings.json')


def load_known():
    try:
        with open(KNOWN) as f:
            return json.load(f)['findings']
    except FileNotFoundError:
        return []


class Ctx:
    """One run of one property's check."""

    def __init__(self, prop, tier, seed, level='model_checking'):
        self.prop = prop
        self.tier = tier
        self.seed = seed
        self.level = level
        self.t0 = time.time()
        self.states = 0
        self.transitions = 0
        self.traces = 0          # behaviours replayed into / traces validated against the implementation
        self.evaluations = 0
        self.samples = []
        self.tlc_runs = []
        self.cov = {}
        self.assumptions = []
        self.notes = {}
        self.violations = []     # (key, detail): first occurrence per key
        self.vcount = {}
        self.known_hit = {}      # key pattern -> count
        self.drift = []
        self.distinct = set()
        self.known = [k for k in load_known() if k['property'] == prop]
        self.exhaustive = None

    quick = property(lambda self: self.tier == 'quick')

    # ---- bookkeeping ---------------------------------------------------------------------
    def add_tlc(self, res, name):
        self.states += res.distinct
        self.transitions += res.generated
        self.tlc_runs.append({'name': name, 'distinct': res.distinct, 'generated': res.generated,
                              'wall_s': round(res.wall, 1), 'ok': res.ok, 'violation': res.violation})
        for k, v in res.coverage.items():
            o = self.cov.get(name + '.' + k, (0, 0))
            self.cov[name + '.' + k] = (o[0] + v[0], o[1] + v[1])

    def sample(self, s, cap=6):
        if len(self.samples) < cap:
            self.samples.append(s)

    def case(self, key=None, n=1):
        self.evaluations += n
        if key is not None and len(self.distinct) < 2000000:
            self.distinct.add(key)

    def violation(self, key, detail):
        """Record a property violation identified by key (call site / input class)."""
        for k in self.known:
            if k.get('status') == 'open' and fnmatch.fnmatch(key, k['key']):
                self.known_hit[k['key']] = self.known_hit.get(k['key'], 0) + 1
                return False
        self.vcount[key] = self.vcount.get(key, 0) + 1
        if self.vcount[key] == 1 and len(self.violations) < 12:
            self.violations.append((key, detail))
        return True

    def machinery(self, msg):
        print(f'MACHINERY-FAILURE property={self.prop} {msg}', flush=True)
        sys.exit(2)

    # ---- end of run ----------------------------------------------------------------------
    def finish(self):
        os.makedirs(EVID, exist_ok=True)
        wall = time.time() - self.t0
        rc = 0
        for k in self.known:
            if k.get('status') == 'open':
                n = self.known_hit.get(k['key'], 0)
                print(f"KNOWN-FINDING: property={self.prop} {k['key']} -- {k['what']} "
                      f"[reproduced {n}x in this run]", flush=True)
        vdir = os.path.join(OUT, 'violations')
        for idx, (key, detail) in enumerate(self.violations):
            os.makedirs(vdir, exist_ok=True)
            path = os.path.join(vdir, f'{self.prop}_{idx}.json')
            with open(path, 'w') as f:
                json.dump({'property': self.prop, 'key': key, 'tier': self.tier, 'seed': self.seed,
                           'detail': detail}, f, indent=1, default=repr)
            print(f'VIOLATION property={self.prop} replay={path}', flush=True)
            print(f'  key={key} occurrences={self.vcount.get(key)} detail={json.dumps(detail, default=repr)[:500]}', flush=True)
            rc = 1
        cov = {
            'states': self.states, 'transitions': self.transitions,
            'traces_validated_against_impl': self.traces,
            'samples': self.samples or ['(none)'],
            'evaluations': max(self.evaluations, 1),
            'distinct_nontrivial': len(self.distinct),
            'rule': self.notes.get('rule', 'cases enumerated by TLC from the specification; distinct = distinct '
                                   '(configuration, operation, operands) keys executed on the implementation'),
            'tlc_runs': self.tlc_runs,
            'action_coverage': {k: list(v) for k, v in sorted(self.cov.items())},
            'known_findings_reproduced': self.known_hit,
            'drift': self.drift[:20],
        }
        if self.exhaustive is not None:
            cov['exhaustive'] = self.exhaustive
        for k, v in self.notes.items():
            if k != 'rule':
                cov[k] = v
        ev = {'property_id': self.prop, 'tier': self.tier, 'seed': self.seed, 'level': self.level,
              'coverage': cov, 'assumptions': self.assumptions, 'wall_s': round(wall, 2),
              'violations': sum(self.vcount.values())}
        with open(os.path.join(EVID, f'{self.prop}.json'), 'w') as f:
            json.dump(ev, f, indent=1, default=repr)
        print(f'{self.prop} {self.tier}: states={self.states} transitions={self.transitions} '
              f'impl_traces={self.traces} evals={self.evaluations} violations={sum(self.vcount.values())} '
              f'known={sum(self.known_hit.values())} wall={wall:.1f}s', flush=True)
        return rc
