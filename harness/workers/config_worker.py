"""Worker: SecFld argument resolution / setup() / find_prime_root on enumerated arguments."""
import itertools
import json
import os
import random
import sys


def main():
    job = json.load(open(sys.argv[1]))
    repo = os.environ.get('VERIF_REPO', '/repo')
    sys.path.insert(0, '/verif')
    os.environ['VERIF_REPO'] = repo
    from harness.sim.world import World, load_mpyc
    rtmod = load_mpyc()
    from mpyc import sectypes, finfields
    rnd = random.Random(job.get('seed', 0))
    evs = []
    blank = {'kind': '', 'order': 0, 'char': 0, 'ext_deg': 0, 'min_order': 0, 'm': 1, 't': 0, 'acc': False, 'rorder': 0,
             'rchar': 0, 'rdeg': 0, 'forder': 0, 'outorder': 0, 'rt': 0, 'p': 0, 'l': 0, 'n': 0, 'rn': 0, 'w': 0, 'blum': False,
             'f': 0, 'k': 0, 'exc': ''}
    clip = lambda v: min(int(v), 1 << 30)
    if job['what'] == 'secfld':
        combos = []
        for order in [0] + list(range(2, job['max_order'] + 1)):
            combos.append((order, 0, 0, 0))
            for char in (2, 3, 5):
                combos.append((order, char, 0, 0))
            for d in (1, 2, 3):
                combos.append((order, 0, d, 0))
        for char in (0, 2, 3, 4, 5, 6, 7, 9):
            for d in (0, 1, 2, 3):
                for mo in (0, 2, 3, 4, 5, 8, 9, 10, 16, 17, 27, 30, 100):
                    combos.append((0, char, d, mo))
        if len(combos) > job['max_combos']:
            combos = rnd.sample(combos, job['max_combos'])
        for (m, t) in job['worlds']:
            w = World(m, t, seed=1)
            try:
                w._switch(0)
                for (order, char, d, mo) in combos:
                    e = dict(blank, kind='secfld', order=order, char=char, ext_deg=d, min_order=mo, m=m, t=t)
                    kw = {}
                    if order:
                        kw['order'] = order
                    if char:
                        kw['char'] = char
                    if d:
                        kw['ext_deg'] = d
                    if mo:
                        kw['min_order'] = mo
                    try:
                        sf = sectypes.SecFld(**kw)
                        base = sf.subfield if getattr(sf, 'subfield', None) is not None else sf.field
                        e.update(acc=True, rorder=clip(base.order), rchar=int(base.characteristic), rdeg=int(base.ext_deg),
                                 forder=clip(sf.field.order))
                        oc = sf._output_conversion
                        x = sf.field(1)
                        out = oc(x) if oc is not None else x
                        e['outorder'] = clip(type(out).order)
                    except Exception as exc:
                        e['exc'] = type(exc).__name__ + ':' + str(exc)[:60]
                    evs.append(e)
                # secure number types of this world
                for (l, f) in ((4, 0), (8, 0), (32, 0), (8, 4), (16, 8)):
                    T = sectypes.SecInt(l) if not f else sectypes.SecFxp(l, f)
                    evs.append(dict(blank, kind='sectype', l=l, f=f, m=m, t=t, forder=clip(T.field.order)))
            finally:
                w.close()
    elif job['what'] == 'setup':
        import subprocess
        for m in range(1, job['max_m'] + 1):
            for t in [-1] + list(range(0, job['max_t'] + 1)):
                code = ("import sys; sys.path.insert(0, %r); sys.argv = ['x', '-M', '%d', '-I', '0', '--no-log'] + (%r);\n"
                        "from mpyc.runtime import mpc; print('THRESHOLD', mpc.threshold, len(mpc.parties))" %
                        (repo, m, ['-T', str(t)] if t >= 0 else []))
                p = subprocess.run([sys.executable, '-c', code], capture_output=True, text=True, timeout=120)
                e = dict(blank, kind='setup', m=m, t=t)
                out = p.stdout
                if 'THRESHOLD' in out:
                    tok = out.split('THRESHOLD')[1].split()
                    e.update(acc=True, rt=int(tok[0]))
                else:
                    e['exc'] = (p.stdout + p.stderr)[-120:]
                evs.append(e)
    else:  # primeroot
        for l in range(2, job['max_l'] + 1):
            for blum in (True, False):
                for n in (1, 2, 3, 5, 7, 11, 13):
                    if not blum and n > 2:
                        continue
                    e = dict(blank, kind='primeroot', l=l, n=n, blum=blum)
                    try:
                        p, rn, w = finfields.find_prime_root(l, blum=blum, n=n)
                        e.update(p=clip(p), rn=int(rn), w=clip(w))
                    except Exception as exc:
                        e['exc'] = type(exc).__name__
                        e['p'] = 4
                    evs.append(e)
        for (m, t) in job['worlds']:
            for k in (1, 2, 4, 8):
                w = World(m, t, seed=1, sec_param=k)
                try:
                    w._switch(0)
                    for (l, f) in ((2, 0), (4, 0), (8, 0), (12, 0), (4, 2), (8, 4), (10, 5)):
                        if l + f + k + 2 > 29:
                            continue
                        for n in (2, 3):
                            try:
                                T = sectypes.SecInt(l, n=n) if not f else sectypes.SecFxp(l, f, n=n)
                                evs.append(dict(blank, kind='numtype', l=l, f=f, k=k, m=m, t=t, p=clip(T.field.order),
                                                blum=True, n=n))
                            except Exception as exc:
                                evs.append(dict(blank, kind='numtype', l=l, f=f, k=k, m=m, t=t, p=4, n=n, exc=type(exc).__name__))
                finally:
                    w.close()
    json.dump({'evs': evs}, open(sys.argv[2], 'w'))


if __name__ == '__main__':
    main()
