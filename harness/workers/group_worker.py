"""Worker: plain finite groups (mpyc.fingroups) -> events for Groups.tla."""
import itertools
import math
import json
import os
import random
import sys

UNKNOWN = 999999


class Bad:
    """result of an operation that raised"""
    n = 0

    def __init__(self, exc):
        Bad.n += 1
        self.text = f'EXC#{Bad.n}:{type(exc).__name__}'


def safe(f):
    try:
        return f()
    except Exception as exc:      # the operation itself raised: reported as a result that is not a group element
        return Bad(exc)


def main():
    job = json.load(open(sys.argv[1]))
    repo = os.environ.get('VERIF_REPO', '/repo')
    sys.path.insert(0, repo)
    argv = sys.argv
    sys.argv = [argv[0], '--no-log']
    from mpyc import fingroups as fg
    sys.argv = argv
    rnd = random.Random(job.get('seed', 0))
    evs = []
    blank = {'kind': '', 'fam': '', 'coord': '', 'op': '', 'e1': 0, 'e2': 0, 'n': 0, 'res': 0, 'order': 0, 'valid': True,
             'a': [], 'b': [], 'ab': [], 'inva': [], 'pow': [], 'eq': 0, 'm': 0, 'dec': 0, 'p': 0, 'q': 0, 'l': '', 'r': ''}
    # ---- symmetric groups ----
    for n in job['sym_n']:
        G = fg.SymmetricGroup(n)
        perms = list(itertools.permutations(range(n)))
        pairs = list(itertools.product(perms, perms))
        if len(pairs) > job['max_pairs']:
            pairs = rnd.sample(pairs, job['max_pairs'])
        for a, b in pairs:
            A, Bb = G(a), G(b)
            k = rnd.randint(-4, 6)
            evs.append(dict(blank, kind='sym', fam=f'S{n}', a=list(a), b=list(b), ab=list((A @ Bb).value), inva=list((~A).value),
                            pow=list((A ^ k).value), n=k, eq=int(A == Bb)))
    # ---- small residue groups ----
    for (p, q, kind) in job['res']:
        G = fg.QuadraticResidues(p=p) if kind == 'QR' else fg.SchnorrGroup(p=p, q=q)
        g = G.generator
        elems = []
        x = G.identity
        for _ in range(q):
            elems.append(x)
            x = x @ g
        for A in elems:
            for Bb in rnd.sample(elems, min(len(elems), 6)):
                k = rnd.randint(-5, 8)
                evs.append(dict(blank, kind='res', fam=f'{kind}{p}', p=p, q=q, a=int(A.value) % p, b=int(Bb.value) % p, n=k,
                                ab=int((A @ Bb).value) % p, inva=int((~A).value) % p, pow=int((A ^ k).value) % p))
    # ---- cyclic structure of every family / coordinate system ----
    E = job['emax']

    def fams():
        for name in job['curves']:
            coords = ['affine', 'projective'] + (['extended'] if name.startswith('Ed') else ['jacobian'])
            ref = fg.EllipticCurve(name, 'affine')
            for c in coords:
                yield f'EC-{name}', c, ref, fg.EllipticCurve(name, c)
        for (l, genus) in job['hc']:
            ref = fg.HyperellipticCurve(l=l, genus=genus)
            yield f'HC-l{l}g{genus}', 'affine', ref, ref
        if job.get('kummer'):
            ref = fg.HyperellipticCurve('kummer1271')
            yield 'HC-kummer1271', 'extended', ref, ref
        for D in job['cl']:
            ref = fg.ClassGroup(Delta=D)
            yield f'Cl{D}', 'forms', ref, ref
        for l in job['cl_l']:
            ref = fg.ClassGroup(l=l)
            yield f'Cl-l{l}', 'forms', ref, ref
        for l in job['qr_l']:
            ref = fg.QuadraticResidues(l=l)
            yield f'QR-l{l}', 'plain', ref, ref
        for l, n in job['sg_l']:
            ref = fg.SchnorrGroup(l=l, n=n)
            yield f'SG-l{l}n{n}', 'plain', ref, ref

    def keyof(pt):
        if hasattr(pt, 'normalize'):
            pt = pt.normalize()
        v = pt.value
        if isinstance(v, (tuple, list)):
            out = []
            for c in v[:2] if hasattr(pt, 'normalize') and not isinstance(v[0], (tuple, list)) else v:
                out.append(repr(c))
            return tuple(out)
        return repr(v)
    for (fam, coord, Ref, G), rbase in itertools.product(fams(), (False, True)):
        # table of e * g with the reference (affine) implementation; second round: g replaced by g^r, r random
        g = Ref.generator
        big = Ref.order if Ref.order is not None else 10**6
        if rbase:
            if big <= 2 * E + 1:
                continue
            g = g ^ rnd.randrange(2, big)
            fam = fam + '^r'
        table = {0: Ref.identity}
        for e in range(1, E + 1):
            table[e] = table[e - 1] @ g
            table[-e] = ~table[e]
        order = Ref.order if (Ref.order is not None and Ref.order < 4000 and not rbase) else 0
        # class groups declare the class number; the built-in generator (trivial unless Delta = 1 mod 8) generates a subgroup whose
        # order divides it: exponents are reduced modulo the order of g observed in the table (g^declared = identity is still demanded)
        actual = next((e for e in range(1, E + 1) if table[e] == Ref.identity), 0)
        if actual == 1:
            evs.append(dict(blank, kind='cyc', fam=fam, coord=coord, op='order', order=0, res=0))      # trivial generator: nothing to exponentiate
            continue
        if actual and not rbase and fam.startswith('Cl') and Ref.order is not None and Ref.order % actual == 0:
            order = actual
        if rbase and len({keyof(pt) for pt in table.values() if pt != Ref.identity}) < 2 * E:
            continue        # g^r has small order: exponents would be ambiguous
        lookup = {}
        for e, pt in table.items():
            key = keyof(pt) if pt != Ref.identity else 'IDENTITY'
            lookup.setdefault(key, e)

        def conv(e):
            """element g^e in coordinate system of G"""
            pt = table[e]
            if G is Ref:
                return pt
            if pt == Ref.identity:
                return G.identity
            return G(tuple(pt.normalize().value[:2]), check=False)

        def expo(pt):
            if isinstance(pt, Bad):
                return UNKNOWN
            try:
                if pt == G.identity:
                    return 0 if order == 0 else 0
                key = keyof(pt)
            except Exception:
                return UNKNOWN
            e = lookup.get(key, UNKNOWN)
            return e % order if (order and e != UNKNOWN) else e

        def valid(pt):
            if isinstance(pt, Bad):
                return False
            try:
                if pt == G.identity:
                    return True
                type(pt)(pt.value, check=True) if 'check' in type(pt).__init__.__code__.co_varnames else None
                return True
            except Exception:
                return False
        base = dict(blank, kind='cyc', fam=fam, coord=coord, order=order)
        rng = range(-E // 2, E // 2 + 1)
        for e1 in rng:
            A = conv(e1)
            evs.append(dict(base, op='fromcoord', e1=e1, res=expo(A), valid=valid(A)))
            IA = safe(lambda: ~A)
            evs.append(dict(base, op='inv', e1=e1, res=expo(IA), valid=valid(IA)))
            D2 = safe(lambda: A @ A)
            evs.append(dict(base, op='double', e1=e1, res=expo(D2), valid=valid(D2)))
            for e2 in rng:
                if abs(e1 + e2) > E:
                    continue
                Bb = conv(e2)
                C = safe(lambda: A @ Bb if e1 != e2 else type(A).operation(A, Bb))
                evs.append(dict(base, op='op', e1=e1, e2=e2, res=expo(C), valid=valid(C)))
                EQ = safe(lambda: int(A == Bb))
                evs.append(dict(base, op='eq', e1=e1, e2=e2, res=EQ if isinstance(EQ, int) else UNKNOWN))
            for kk in (-3, -1, 0, 1, 2, 3, 5):
                if abs(kk * e1) <= E:
                    R = safe(lambda: A ^ kk)
                    evs.append(dict(base, op='repeat', e1=e1, n=kk, res=expo(R), valid=valid(R)))
        if G.order is not None and not rbase:
            R = safe(lambda: G.generator ^ G.order)
            evs.append(dict(base, op='order', res=expo(R)))
            R = safe(lambda: G.generator ^ (G.order + 1))
            evs.append(dict(base, op='fromcoord', e1=1, res=expo(R)))
        evs.append(dict(base, op='identity', res=expo(safe(lambda: G.identity @ G.identity))))
        # group laws on random elements (powers of the generator with random large exponents), compared by normal form
        if not rbase:
            for _ in range(job['laws']):
                xyz = safe(lambda: [G.generator ^ rnd.randrange(-big, big) for _ in range(3)])
                if isinstance(xyz, Bad):
                    evs.append(dict(blank, kind='law', fam=fam, coord=coord, op='random-element', l=xyz.text, r='element'))
                    continue
                x, y, z = xyz
                n1, n2 = rnd.randrange(-40, 40), rnd.randrange(-big, big)
                def nf(f):
                    pt = safe(f)
                    if isinstance(pt, Bad):
                        return pt.text
                    return safe(lambda: 'I' if pt == G.identity else str(keyof(pt))) if not isinstance(pt, str) else pt

                def lawev(nm, l, r):
                    a_, b_ = nf(l), nf(r)
                    evs.append(dict(blank, kind='law', fam=fam, coord=coord, op=nm, l=a_ if isinstance(a_, str) else a_.text, r=b_ if isinstance(b_, str) else b_.text))
                lawev('assoc', lambda: (x @ y) @ z, lambda: x @ (y @ z))
                lawev('identity', lambda: x @ G.identity, lambda: x)
                lawev('identity-left', lambda: G.identity @ x, lambda: x)
                lawev('inverse', lambda: x @ ~x, lambda: G.identity)
                lawev('inverse-left', lambda: ~x @ x, lambda: G.identity)
                lawev('double', lambda: type(x).operation2(x), lambda: type(x).operation(x, x))
                def rep():
                    r_ = G.identity
                    for _ in range(abs(n1)):
                        r_ = r_ @ (x if n1 >= 0 else ~x)
                    return r_
                lawev('repeat-small', lambda: x ^ n1, rep)
                lawev('repeat-add', lambda: x ^ (n1 + n2), lambda: (x ^ n1) @ (x ^ n2))
                lawev('repeat-mul', lambda: x ^ (n1 * n2), lambda: (x ^ n2) ^ n1)
                lawev('repeat-neg', lambda: x ^ (-n2), lambda: ~(x ^ n2))
        # encode / decode
        if hasattr(G, 'encode') and not rbase:
            for m in job['messages']:
                if fam.startswith('SG') and m >= min(1024, G.order):
                    continue
                if fam.startswith('Cl') and not (m + 1) * G.gap <= math.isqrt(-G.discriminant) / 2:
                    continue
                if fam.split('-')[0] in ('EC', 'HC', 'QR') and not (m + 1) * G.gap < G.field.characteristic:
                    continue
                try:
                    M, Z = G.encode(m)
                    evs.append(dict(blank, kind='codec', fam=fam, coord=coord, m=m, dec=int(G.decode(M, Z))))
                except Exception as exc:
                    evs.append(dict(blank, kind='codec', fam=fam, coord=coord, m=m, dec=-1))
    json.dump({'evs': evs}, open(sys.argv[2], 'w'))


if __name__ == '__main__':
    main()
