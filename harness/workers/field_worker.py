"""Worker: enumerates elements of a field and records sqrt / is_sqr / serialisation results as JSON."""
import json
import os
import pickle
import random
import sys


def main():
    job = json.load(open(sys.argv[1]))
    repo = os.environ.get('VERIF_REPO', '/repo')
    sys.path.insert(0, repo)
    argv = sys.argv
    sys.argv = [argv[0], '--no-log']
    from mpyc import finfields, gfpx
    sys.argv = argv
    p, d = job['p'], job['d']
    q = p ** d
    if d == 1:
        F = finfields.GF(p)
        modc = [0]
    else:
        mod = finfields.find_irreducible(p, d) if not job.get('modint') else gfpx.GFpX(p)(job['modint'])
        F = finfields.GF(mod)
        modc = [int(c) for c in list(gfpx.GFpX(p)(int(F.modulus)))[:d]] if False else None
        # coefficients of the monic modulus, low order first, without the leading one
        m = int(F.modulus)
        modc = [(m // p ** i) % p for i in range(d)]
    rnd = random.Random(job.get('seed', 0))
    elems = list(range(q)) if q <= job.get('max_all', 600) else sorted(rnd.sample(range(q), job.get('max_all', 600)))
    evs = []
    blank = {'a': 0, 'is_sqr': False, 'sqrt': -1, 'isqrt': -1, 'isqrt_exc': '', 'vals': [], 'bytes': [], 'dec': [],
             'width': 0, 'b': 0, 'same_type': False, 'signed': False, 'i': 0, 'sgn': 0, 'uns': 0}

    def iv(x):
        return int(x.value)
    if job['what'] == 'sqrt':
        for a in elems:
            e = dict(blank, fn='sqrt', a=a)
            x = F(a)
            e['is_sqr'] = bool(x.is_sqr())
            try:
                e['sqrt'] = iv(x.sqrt())
            except Exception as exc:
                e['sqrt'] = -1
                e['sqrt_exc'] = type(exc).__name__
            try:
                e['isqrt'] = iv(x.sqrt(INV=True))
            except Exception as exc:
                e['isqrt'] = -1
                e['isqrt_exc'] = type(exc).__name__
            evs.append(e)
    else:
        w = F.byte_length
        lists = [[a] for a in elems] + [[]]
        for _ in range(job.get('nlists', 60)):
            lists.append([rnd.randrange(q) for _ in range(rnd.randint(2, 5))])
        for vals in lists:
            raw = [F(v).value if d == 1 else int(F(v).value) for v in vals]
            data = F.to_bytes(raw)
            dec = F.from_bytes(data)
            evs.append(dict(blank, fn='bytes', vals=vals, bytes=list(data), dec=[int(F(v).value) if not isinstance(v, int) else v for v in dec], width=w))
        for a in elems:
            x = F(a)
            y = pickle.loads(pickle.dumps(x))
            evs.append(dict(blank, fn='pickle', a=a, b=iv(y), same_type=(type(y) is type(x) and y == x)))
            for signed in ((False, True) if d == 1 else (False,)):
                if d == 1:
                    F.is_signed = signed
                e = dict(blank, fn='int', a=a, signed=signed, i=int(x))
                if d == 1:
                    e['sgn'] = x.signed_()
                    e['uns'] = x.unsigned_()
                evs.append(e)
            if d == 1:
                F.is_signed = True
    json.dump({'evs': evs, 'modc': modc, 'q': q, 'exhaustive': len(elems) == q}, open(sys.argv[2], 'w'))


if __name__ == '__main__':
    main()
