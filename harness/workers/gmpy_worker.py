"""Worker: runs the pure-Python gmpy2 stand-ins of mpyc.gmpy on enumerated / sampled inputs."""
import json
import os
import random
import sys


def main():
    job = json.load(open(sys.argv[1]))
    repo = os.environ.get('VERIF_REPO', '/repo')
    sys.path.insert(0, repo)
    os.environ['MPYC_NOGMPY'] = '1'
    argv = sys.argv
    sys.argv = [argv[0], '--no-log']
    from mpyc import gmpy
    sys.argv = argv
    rnd = random.Random(job.get('seed', 0))
    B = job['pair_bound']
    U = job['unary_bound']
    blank = {'x': 0, 'y': 0, 'n': 0, 'N': 0, 'D': 0, 'r1': 0, 'r2': 0, 'r3': 0, 'exc': ''}
    evs = []

    def rec(fn, f, args, **kw):
        e = dict(blank, fn=fn, **kw)
        try:
            r = f(*args)
            if isinstance(r, tuple):
                for i, v in enumerate(r):
                    e[f'r{i + 1}'] = int(v)
            else:
                e['r1'] = int(r)
        except Exception as exc:
            e['exc'] = type(exc).__name__
        evs.append(e)
    small = list(range(-job['small'], job['small'] + 1))
    pairs = [(x, y) for x in small for y in small]
    pairs += [(rnd.randint(-B, B), rnd.randint(-B, B)) for _ in range(job['npairs'])]
    for x, y in pairs:
        rec('invert', gmpy.invert, (x, y), x=x, y=y)
        rec('gcdext', gmpy.gcdext, (x, y), x=x, y=y)
        rec('kronecker', gmpy.kronecker, (x, y), x=x, y=y)
        rec('jacobi', gmpy.jacobi, (x, y), x=x, y=y)
        if y > 2 and gmpy.is_prime(y):
            rec('legendre', gmpy.legendre, (x, y), x=x, y=y)
    unary = list(range(-3, job['unary_all'])) + [rnd.randrange(U) for _ in range(job['nunary'])]
    for x in unary:
        rec('is_prime', gmpy.is_prime, (x,), x=x)
        rec('next_prime', gmpy.next_prime, (x,), x=x)
        rec('prev_prime', gmpy.prev_prime, (x,), x=x)
        rec('factor_prime_power', gmpy.factor_prime_power, (x,), x=x)
        if x >= 0:
            rec('isqrt', gmpy.isqrt, (x,), x=x)
            rec('is_square', gmpy.is_square, (x,), x=x)
            for n in (2, 3, 5):
                rec('iroot', gmpy.iroot, (x, n), x=x, n=n)
    # prime powers explicitly (rare among random numbers)
    for p in (2, 3, 5, 7, 11, 13, 31, 127, 181):
        d = 1
        while p ** d < (1 << 30):
            rec('factor_prime_power', gmpy.factor_prime_power, (p ** d,), x=p ** d)
            d += 1
    # large prime powers p^d (p beyond the trial-division range of factor_prime_power): only (p, d) go to TLC
    for p in (1021, 1031, 1033, 2039, 4099, 32749):
        for d in range(1, job.get('bigpow', 12) + 1):
            rec('factor_prime_power_of', gmpy.factor_prime_power, (p ** d,), x=p, n=d)
    # rational reconstruction: every (n, d) in a box, several moduli, default and explicit bounds
    for y in job['ratrec_moduli']:
        for _ in range(job['nratrec']):
            N = rnd.randint(0, 12)
            D = rnd.randint(1, 12)
            x = rnd.randrange(y)
            if 2 * N * D < y:
                rec('ratrec', gmpy.ratrec, (x, y, N, D), x=x, y=y, N=N, D=D)
            d = rnd.randint(1, D)
            n = rnd.randint(-N, N)
            if 2 * N * D < y and gmpy.gcdext(d, y)[0] == 1:
                x = (n * gmpy.invert(d, y)) % y
                rec('ratrec', gmpy.ratrec, (x, y, N, D), x=x, y=y, N=N, D=D)
    json.dump({'evs': evs}, open(sys.argv[2], 'w'))


if __name__ == '__main__':
    main()
