"""Worker: runs mpyc.gfpx operations on enumerated polynomials and records results as JSON."""
import itertools
import json
import os
import random
import sys


def main():
    job = json.load(open(sys.argv[1]))
    repo = os.environ.get('VERIF_REPO', '/repo')
    sys.path.insert(0, repo)
    argv = sys.argv
    sys.argv = [argv[0], '--no-log']
    from mpyc import gfpx, finfields
    sys.argv = argv
    p, deg = job['p'], job['deg']
    rnd = random.Random(job.get('seed', 0))
    classes = [('native', gfpx.GFpX(p))]
    if p == 2:
        classes.append(('list', type('GenericGF2X', (gfpx.Polynomial,), {'__slots__': (), 'p': 2})))
    polys = list(range(p ** (deg + 1)))
    blank = {'a': 0, 'b': 0, 'n': 0, 'r1': 0, 'r2': 0, 'r3': 0, 'r4': 0, 'exc': '', 'rep': ''}
    evs = []

    def call(f, *args):
        try:
            return f(*args), ''
        except Exception as exc:
            return None, type(exc).__name__
    if job['what'] == 'ring':
        pairs = list(itertools.product(polys, polys))
        if len(pairs) > job.get('max_pairs', 2500):
            pairs = rnd.sample(pairs, job['max_pairs'])
        for rep, C in classes:
            for a, b in pairs:
                A, B = C(a), C(b)
                e = dict(blank, rep=rep, a=a, b=b)
                evs.append(dict(e, fn='add', r1=int(A + B)))
                evs.append(dict(e, fn='sub', r1=int(A - B)))
                evs.append(dict(e, fn='mul', r1=int(A * B)))
                evs.append(dict(e, fn='lt', r1=int(A < B)))
                r, exc = call(divmod, A, B)
                ev = dict(e, fn='divmod', exc=exc)
                if r is not None:
                    ev.update(r1=int(r[0]), r2=int(r[1]), r3=int(A // B), r4=int(A % B))
                evs.append(ev)
                g = C.gcd(A, B)
                g2, s, t = C.gcdext(A, B)
                evs.append(dict(e, fn='gcd', r1=int(g), r2=int(g2), r3=int(s), r4=int(t)))
                r, exc = call(C.invert, A, B)
                evs.append(dict(e, fn='invert', r1=int(r) if r is not None else 0, r2=int(g), exc=exc))
                for n in job.get('exps', [0, 1, 2, 3, -1, -2]):
                    if b == 0:
                        continue
                    r, exc = call(C.powmod, A, n, B)
                    evs.append(dict(e, fn='powmod', n=n, r1=int(r) if r is not None else 0, r2=int(g), exc=exc))
            for a in polys:
                evs.append(dict(blank, rep=rep, fn='neg', a=a, r1=int(-C(a))))
    else:
        for rep, C in classes:
            for a in polys:
                evs.append(dict(blank, rep=rep, fn='irr', a=a, r1=int(bool(C.is_irreducible(C(a))))))
            for a in polys[: p ** deg]:
                r, exc = call(C.next_irreducible, C(a))
                evs.append(dict(blank, rep=rep, fn='nextirr', a=a, r1=int(r) if r is not None else -1, exc=exc))
        for d in range(1, deg + 1):
            evs.append(dict(blank, rep='native', fn='findirr', n=d, r1=int(finfields.find_irreducible(p, d))))
        for a in polys:
            if a < p:
                continue
            r, exc = call(finfields.GF, gfpx.GFpX(p)(a))
            evs.append(dict(blank, rep='native', fn='gfaccept', a=a, r1=int(r is not None), exc=exc))
    json.dump({'evs': evs}, open(sys.argv[2], 'w'))


if __name__ == '__main__':
    main()
