"""Worker: runs the real thresha functions on enumerated cases and writes the recorded calls as JSON.

Runs under /venv/bin/python (list variants) or /verif/.venv-np/bin/python (NumPy variants, --np).
usage: thresha_worker.py <job.json> <out.json>
job: {"what": "shamir"|"prss", "p":, "d":, "modint":, "m":, "t":, "np": bool, "seed":, "budget":}
"""
import itertools
import json
import os
import random
import sys


def main():
    job = json.load(open(sys.argv[1]))
    repo = os.environ.get('VERIF_REPO', '/repo')
    sys.path.insert(0, repo)
    argv = sys.argv
    sys.argv = [argv[0], '--no-log']
    from mpyc import finfields, gfpx, thresha
    import mpyc
    assert os.path.realpath(os.path.dirname(mpyc.__file__)) == os.path.realpath(os.path.join(repo, 'mpyc'))
    sys.argv = argv
    import secrets
    p, d, m, t = job['p'], job['d'], job['m'], job['t']
    q = p ** d
    if d == 1:
        field = finfields.GF(p)
    else:
        field = finfields.GF(gfpx.GFpX(p)(job['modint']))
    use_np = job.get('np', False)
    if use_np:
        import numpy as np
    rnd = random.Random(job.get('seed', 0))
    script = []
    bounds = []

    def randbelow(n):
        bounds.append(n)
        return script.pop(0)
    secrets.randbelow = randbelow

    def ival(x):
        return int((x if isinstance(x, field) else field(x)).value)

    calls = []
    if job['what'] == 'shamir':
        coefs = list(itertools.product(range(q), repeat=t))
        cases = [(s, c) for s in range(q) for c in coefs]
        budget = job.get('budget', 400)
        exhaustive = len(cases) <= budget
        if not exhaustive:
            cases = rnd.sample(cases, budget)
        subsets = [S for r in range(t + 1, m + 1) for S in itertools.combinations(range(1, m + 1), r)]
        for idx, (s, c) in enumerate(cases):
            # single secret as field element
            script[:] = list(c)
            del bounds[:]
            if use_np:
                sh = thresha.np_random_split(field, field.array([s]), t, m)
                shares = [[ival(v) for v in row] for row in sh]
            else:
                sh = thresha.random_split(field, [field(s)], t, m)
                shares = [[ival(v) for v in row] for row in sh]
            # np variant: coefficient matrix C[j][h] is the coefficient of X^(j+1): spec order is reversed
            calls.append({'kind': 'split', 'm': m, 's': [s], 'c': [list(reversed(c)) if use_np else list(c)],
                          'shares': shares, 'bounds': list(bounds), 'pts': [], 'xr': [], 'val': []})
            # recombination from every subset of >= t+1 shares, at 0 (scalar form) and at every x (list form)
            subs = subsets if (exhaustive and len(cases) * len(subsets) <= 4000) else rnd.sample(subsets, min(len(subsets), 3))
            for S in subs:
                if use_np:
                    pts = [(i, np.array([shares[i - 1][0]], dtype=object)) for i in S]
                    v0 = thresha.np_recombine(field, pts)
                    vx = thresha.np_recombine(field, pts, list(range(q)))
                    val = [[ival(v) for v in v0]] + [[ival(v) for v in row] for row in vx]
                else:
                    as_field = (idx % 2 == 0)
                    pts = [(i, [field(shares[i - 1][0]) if as_field else (field(shares[i - 1][0]).value)]) for i in S]
                    v0 = thresha.recombine(field, pts)
                    vx = thresha.recombine(field, pts, list(range(q)))
                    val = [[ival(v) for v in v0]] + [[ival(v) for v in row] for row in vx]
                calls.append({'kind': 'recombine', 'm': m, 's': [], 'c': [], 'shares': [], 'bounds': [],
                              'pts': [[i, [shares[i - 1][0]]] for i in S], 'xr': [0] + list(range(q)), 'val': val})
        # list variant: three secrets in one call (raw values, not field elements, for the list version)
        for _ in range(job.get('multi', 10)):
            ss = [rnd.randrange(q) for _ in range(3)]
            cs = [[rnd.randrange(q) for _ in range(t)] for _ in range(3)]
            script[:] = [x for c in cs for x in c]
            del bounds[:]
            if use_np:
                sh = thresha.np_random_split(field, field.array(ss), t, m)
                flat = [x for c in cs for x in c]      # script order: C[j][h] = flat[j * 3 + h]
                cs = [[flat[(t - 1 - jj) * 3 + h] for jj in range(t)] for h in range(3)]
            else:
                sh = thresha.random_split(field, [field(x).value for x in ss], t, m)
            shares = [[ival(v) for v in row] for row in sh]
            calls.append({'kind': 'split', 'm': m, 's': ss, 'c': [list(c) for c in cs], 'shares': shares,
                          'bounds': list(bounds), 'pts': [], 'xr': [], 'val': []})
            S = rnd.sample(range(1, m + 1), t + 1)
            pts = [(i, [field(v) for v in shares[i - 1]]) for i in S]
            if use_np:
                pts = [(i, np.array(shares[i - 1], dtype=object)) for i in S]
                v0 = thresha.np_recombine(field, pts)
            else:
                v0 = thresha.recombine(field, pts)
            calls.append({'kind': 'recombine', 'm': m, 's': [], 'c': [], 'shares': [], 'bounds': [],
                          'pts': [[i, shares[i - 1]] for i in S], 'xr': [0], 'val': [[ival(v) for v in v0]]})
        meta = {'exhaustive': exhaustive, 'cases': len(cases)}
    else:  # prss
        subsets = list(itertools.combinations(range(m), m - t))
        budget = job.get('budget', 300)
        allr = None
        if q ** len(subsets) <= budget:
            allr = list(itertools.product(range(q), repeat=len(subsets)))
        n_list = [1, 3, 0]
        cases = []
        if allr is not None:
            cases = [('share', 1, [[r] for r in rs]) for rs in allr]
        else:
            for _ in range(budget):
                n = rnd.choice((1, 1, 3))
                cases.append(('share', n, [[rnd.randrange(q) for _ in range(n)] for _ in subsets]))
        for _ in range(budget // 2 if t else 3):
            n = rnd.choice((1, 1, 3))
            cases.append(('zero', n, [[rnd.randrange(q) for _ in range(n * t)] for _ in subsets]))
        cases.append(('share', 0, [[] for _ in subsets]))
        cases.append(('zero', 0, [[] for _ in subsets]))
        for kind, n, rs in cases:
            shares = []
            for i in range(m):
                prfs = {}
                for k, S in enumerate(subsets):
                    if i in S:
                        if use_np:
                            prfs[S] = (lambda uci, shape, k=k: np.array(rs[k], dtype=object).reshape(shape))
                        else:
                            prfs[S] = (lambda uci, nn, k=k: list(rs[k][:nn]))
                if kind == 'share':
                    f = thresha.np_pseudorandom_share if use_np else thresha.pseudorandom_share
                else:
                    f = thresha.np_pseudorandom_share_0 if use_np else thresha.pseudorandom_share_zero
                if use_np and n == 0:
                    shares.append([])
                    continue
                sh = f(field, m, i, prfs, b'uci', n)
                shares.append([ival(v) for v in sh])
            calls.append({'kind': kind, 'n': n, 'subsets': [list(S) for S in subsets], 'r': rs, 'shares': shares})
        meta = {'exhaustive': allr is not None, 'cases': len(cases)}
    json.dump({'calls': calls, 'meta': meta}, open(sys.argv[2], 'w'))


if __name__ == '__main__':
    main()
