"""Worker: calls thresha.PRF with keys x inputs x bounds x counts/shapes and records the outputs together with
the SHAKE-128 digest computed independently."""
import json
import os
import random
import sys
from hashlib import shake_128


def main():
    job = json.load(open(sys.argv[1]))
    repo = os.environ.get('VERIF_REPO', '/repo')
    sys.path.insert(0, repo)
    argv = sys.argv
    sys.argv = [argv[0], '--no-log']
    from mpyc import thresha
    sys.argv = argv
    try:
        import numpy as np
    except ImportError:
        np = None
    rnd = random.Random(job.get('seed', 0))
    evs = []
    bounds = [1, 2, 3, 4, 5, 7, 8, 100, 127, 128, 255, 256, 257, 1000, 65535, 65536, 65537, (1 << 21), (1 << 22) - 3]
    bounds += [rnd.randrange(2, 1 << 22) for _ in range(job['nbounds'])]
    for bound in bounds:
        for _ in range(job['nkeys']):
            key = bytes(rnd.getrandbits(8) for _ in range(16))
            s = bytes(rnd.getrandbits(8) for _ in range(rnd.choice((0, 1, 8, 8, 13))))
            prf = thresha.PRF(key, bound)
            for n in (None, 0, 1, 2, 5) + (((2, 3), (4,), (1, 1, 2)) if np is not None else ()):
                shape = n if isinstance(n, tuple) else None
                cnt = 1 if n is None else (n if shape is None else int(np.prod(shape)))
                w = ((bound - 1).bit_length() + 7) // 8 + (0 if bound & (bound - 1) == 0 else len(key))
                dk = shake_128(key + s).digest(cnt * w) if cnt * w else b''
                out = prf(s, n)
                again = prf(s, n)
                isscalar = isinstance(out, int)
                shapeok = True
                if shape is not None:
                    shapeok = tuple(out.shape) == shape
                    flat = [int(v) for v in out.reshape(-1)]
                    flat2 = [int(v) for v in again.reshape(-1)]
                    # consistency with the list form
                    shapeok = shapeok and flat == [int(v) for v in prf(s, cnt)]
                elif isscalar:
                    flat, flat2 = [int(out)], [int(again)]
                    shapeok = prf(s, 1) == [out]
                else:
                    flat, flat2 = [int(v) for v in out], [int(v) for v in again]
                    shapeok = isinstance(out, list)
                evs.append({'bound': bound, 'keylen': len(key), 'n': -1 if n is None else cnt, 'dk': list(dk), 'out': flat,
                            'again': flat2, 'isscalar': isscalar, 'shapeok': bool(shapeok), 'shape': list(shape) if shape else []})
    json.dump({'evs': evs, 'numpy': np is not None}, open(sys.argv[2], 'w'))


if __name__ == '__main__':
    main()
