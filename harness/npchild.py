"""Run a harness function in the NumPy side venv:  python npchild.py <module>.<func> <job.json> <out.json>
The function gets (job, collect) where collect mimics Ctx (.violation, .case, .seed, .quick) and returns a JSON-able value."""
import importlib
import json
import os
import sys
import warnings

ROOT = os.path.dirname(os.path.dirname(os.path.abspath(__file__)))
NP_PY = os.path.join(ROOT, '.venv-np', 'bin', 'python')


class Collect:
    def __init__(self, seed, quick):
        self.seed, self.quick = seed, quick
        self.violations, self.cases, self.notes = [], [], {}

    def violation(self, key, detail):
        self.violations.append([key, detail])

    def case(self, key):
        self.cases.append(str(key))


def call(ctx, target, job, timeout=3000):
    """parent side: returns the function's value; violations and cases are replayed into ctx"""
    import subprocess
    import tempfile
    if not os.path.exists(NP_PY):
        raise RuntimeError('NumPy side venv missing: run /verif/setup.sh')
    d = tempfile.mkdtemp(prefix='npchild_', dir=os.path.join(ROOT, 'out'))
    try:
        jp, op = os.path.join(d, 'job.json'), os.path.join(d, 'out.json')
        json.dump({'job': job, 'seed': ctx.seed, 'quick': ctx.quick}, open(jp, 'w'))
        env = dict(os.environ, PYTHONHASHSEED='0')
        try:
            pr = subprocess.run([NP_PY, os.path.abspath(__file__), target, jp, op], capture_output=True, text=True, timeout=timeout, env=env)
        except subprocess.TimeoutExpired:
            raise RuntimeError(f'npchild {target} timed out after {timeout} s')
        if pr.returncode != 0:
            raise RuntimeError(f'npchild {target} failed:\n' + pr.stderr[-3000:])
        out = json.load(open(op))
    finally:
        import shutil
        shutil.rmtree(d, ignore_errors=True)
    for k, det in out['violations']:
        ctx.violation(k, det)
    for k in out['cases']:
        ctx.case(k)
    return out['value']


def main():
    sys.path.insert(0, ROOT)
    warnings.filterwarnings('ignore', category=RuntimeWarning)
    target, jp, op = sys.argv[1:4]
    sys.argv = sys.argv[:1]
    d = json.load(open(jp))
    modname, func = target.rsplit('.', 1)
    mod = importlib.import_module(modname)
    col = Collect(d['seed'], d['quick'])
    val = getattr(mod, func)(d['job'], col)
    json.dump({'value': val, 'violations': col.violations, 'cases': col.cases}, open(op, 'w'))


if __name__ == '__main__':
    main()
