"""Parse TLC state-graph dumps (-dump dot,actionlabels) and walk them."""
import re
from collections import deque

from .tlc import parse_value

_node = re.compile(r'^(-?\d+) \[label="(.*?)"(?:,style = filled)?(?:,tooltip=".*")?\];?$')
_edge = re.compile(r'^(-?\d+) -> (-?\d+) \[label="(.*?)",color=')
_conj = re.compile(r'(?:^|\n)/\\ (\w+) = ')


def _unesc(s):
    return s.replace('\\n', '\n').replace('\\"', '"').replace('\\\\', '\\')


def parse_state(label):
    """'/\\ a = 1\n/\\ b = <<..>>' -> dict of parsed values."""
    parts = _conj.split(label)
    d = {}
    if len(parts) == 1:          # single variable: 'acc = 0'
        m = re.match(r'\s*(\w+) = (.*)$', label, re.S)
        return {m.group(1): parse_value(m.group(2))}
    for i in range(1, len(parts), 2):
        d[parts[i]] = parse_value(parts[i + 1])
    return d


class Graph:
    def __init__(self, path):
        self.states = {}      # id -> dict
        self.edges = []       # (src, dst, action string)
        self.init = []
        self.raw = {}
        with open(path) as f:
            for line in f:
                line = line.rstrip('\n')
                m = _edge.match(line)
                if m:
                    self.edges.append((m.group(1), m.group(2), _unesc(m.group(3))))
                    continue
                m = _node.match(line)
                if m:
                    sid = m.group(1)
                    if sid not in self.raw:
                        self.raw[sid] = _unesc(m.group(2))
                    if 'style = filled' in line:
                        if sid not in self.init:
                            self.init.append(sid)
        self.out = {}
        for s, d, a in self.edges:
            self.out.setdefault(s, []).append((d, a))

    def state(self, sid):
        if sid not in self.states:
            self.states[sid] = parse_state(self.raw[sid])
        return self.states[sid]

    def bfs_tree(self):
        """parent[sid] = (parent sid, action) for a shortest path from an initial state."""
        parent = {s: None for s in self.init}
        q = deque(self.init)
        while q:
            s = q.popleft()
            for d, a in self.out.get(s, ()):
                if d not in parent:
                    parent[d] = (s, a)
                    q.append(d)
        return parent

    def path_to(self, parent, sid):
        path = []
        while parent[sid] is not None:
            p, a = parent[sid]
            path.append((p, a, sid))
            sid = p
        path.reverse()
        return path


def parse_action(a):
    """'Arrive(3)' -> ('Arrive', (3,)); 'Send' -> ('Send', ())"""
    m = re.match(r'^(\w+)(?:\((.*)\))?$', a, re.S)
    name, args = m.group(1), m.group(2)
    if args is None:
        return name, ()
    v = parse_value('<<' + args + '>>')
    return name, v
