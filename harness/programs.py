"""Program corpus: real MPyC programs run by every party of a simulated world.

Each program is `async def prog(mpc, arg)` and returns a JSON-able result that must not depend on the
schedule.  Programs start and shut down the runtime themselves (real start()/shutdown()).
"""
import random


def _ints(seed, n, lo, hi):
    r = random.Random(seed)
    return [r.randint(lo, hi) for _ in range(n)]


async def p_out(mpc, arg):
    """input + output only"""
    await mpc.start()
    secint = mpc.SecInt(8)
    a = mpc.input(secint(mpc.pid + 1))
    r = await mpc.output(a)
    await mpc.shutdown()
    return r


async def p_mul2(mpc, arg):
    """two dependent multiplications, a local addition in between, output, barrier"""
    await mpc.start()
    secint = mpc.SecInt(8)
    a = mpc.input(secint(mpc.pid + 2), senders=0)
    x = a * a
    z = x + a
    y = z * a
    r = await mpc.output(y)
    await mpc.barrier()
    await mpc.shutdown()
    return r


async def p_prss(mpc, arg):
    """PRSS randomness (uci increments between forks), comparison"""
    await mpc.start()
    secint = mpc.SecInt(6)
    a = mpc.input(secint(mpc.pid - 1))
    b = mpc.random_bits(secint, 3)
    s = mpc.sum(a)
    lt = s < 2
    bsum = mpc.sum(b)
    ok = (bsum >= 0) & (bsum <= 3)
    r = await mpc.output([lt, ok, a[0] * a[-1]])
    await mpc.shutdown()
    return r


async def p_conv(mpc, arg):
    """conversion between types (nested inputs inside _convert)"""
    await mpc.start()
    secint = mpc.SecInt(8)
    secfld = mpc.SecFld(101)
    secfxp = mpc.SecFxp(12, 4)
    a = mpc.input(secint(3 * mpc.pid + 1), senders=0)
    b = mpc.convert(a, secfld)
    c = mpc.convert(a, secfxp)
    r = [await mpc.output(b * b), await mpc.output(c / 2), await mpc.output(mpc.convert(c * 3, secint))]
    await mpc.shutdown()
    return [int(r[0]), float(r[1]), int(r[2])]


async def p_await_fork(mpc, arg):
    """top-level coroutine awaits one of several independent results, then forks again"""
    await mpc.start()
    secint = mpc.SecInt(8)
    xs = mpc.input(secint(mpc.pid + 1))
    a = xs[0] * xs[-1]
    b = xs[0] < xs[-1]
    c = mpc.prod(xs)
    rb = await mpc.output(b)          # awaits the comparison only
    d = a * (1 + rb) + c              # fork again at top level
    e = mpc.max(xs + [d])
    ra = await mpc.output(a)
    r = await mpc.output([d, e])
    await mpc.shutdown()
    return [ra, rb] + r


async def p_barrier(mpc, arg):
    """deep pending pipeline, then barrier, then more work"""
    await mpc.start()
    secint = mpc.SecInt(8)
    x = mpc.input(secint(mpc.pid + 1), senders=0)
    ys = [x]
    for i in range(4):
        ys.append(ys[-1] * x + i)
    await mpc.barrier('mid')
    z = mpc.sum(ys) % 7
    await mpc.barrier()
    w = await mpc.output([z, ys[-1] > 50])
    await mpc.shutdown()
    return w


async def p_done_results(mpc, arg):
    """operations on already-completed results"""
    await mpc.start()
    secint = mpc.SecInt(8)
    x = mpc.input(secint(5), senders=0)
    y = x * x
    await mpc.gather(y)               # y is done now
    z = y * y + y                     # operands already completed
    await mpc.barrier()
    u = await mpc.output(z)
    v = await mpc.output(mpc.if_else(y > 20, z, y))
    await mpc.shutdown()
    return [u, v]


async def p_transfer(mpc, arg):
    """transfer along several graphs, interleaved with secure ops"""
    await mpc.start()
    m = len(mpc.parties)
    secint = mpc.SecInt(8)
    x = mpc.input(secint(mpc.pid), senders=m - 1)
    t1 = mpc.transfer(('obj', mpc.pid))
    y = x * x
    t2 = mpc.transfer(mpc.pid * 10, senders=0)
    t3 = mpc.transfer([mpc.pid], receivers=m - 1)
    r = [await t1, await t2, await t3, await mpc.output(y, receivers=0)]
    await mpc.shutdown()
    return r


async def p_seclist(mpc, arg):
    """secure list operations with secret indices"""
    await mpc.start()
    secint = mpc.SecInt(8)
    s = mpc.seclist([3, 1, 4, 1, 5], secint)
    i = mpc.input(secint(2), senders=0)
    a = s[i]
    s[i] = secint(9)
    s.append(a)
    n = s.count(1)
    s.sort()
    r = await mpc.output(list(s)) + [await mpc.output(n)]
    await mpc.shutdown()
    return r


async def p_stats(mpc, arg):
    """statistics and sorting"""
    await mpc.start()
    secint = mpc.SecInt(10)
    x = [secint(v) for v in (7, -2, 5, 5, 0, 3)]
    x = [mpc.input(a, senders=0) for a in x]
    r = [await mpc.output(mpc.statistics.mean(x)), await mpc.output(mpc.statistics.median(x)),
         await mpc.output(mpc.sorted(x)), await mpc.output(mpc.argmax(x)[0])]
    await mpc.shutdown()
    return r


async def p_fxp(mpc, arg):
    """fixed-point multiplication/division (trunc, reciprocal)"""
    await mpc.start()
    secfxp = mpc.SecFxp(16, 8)
    a = mpc.input(secfxp(1.5 + mpc.pid), senders=0)
    b = mpc.input(secfxp(-2.25), senders=len(mpc.parties) - 1)
    p = a * b
    q = a / b
    lt = a < b
    r = await mpc.output([p, q, lt])
    await mpc.shutdown()
    return [round(float(v) * 16) / 16 for v in r[:2]] + [int(r[2])]


async def p_fld(mpc, arg):
    """field arithmetic incl. reciprocal, is_zero, lifted field"""
    await mpc.start()
    secfld = mpc.SecFld(5)
    bfld = mpc.SecFld(2**4)
    a = mpc.input(secfld(3), senders=0)
    b = mpc.input(secfld(mpc.pid % 5), senders=0)
    c = mpc.input(bfld(6), senders=0)
    r = await mpc.output([a * a, a / (b + 1), a == b])
    r2 = await mpc.output([c * c, c & bfld(3), ~c])
    await mpc.shutdown()
    return [int(v) for v in r + r2]


async def p_random(mpc, arg):
    """secure random functions: only schedule-independent facts are returned"""
    await mpc.start()
    secint = mpc.SecInt(8)
    x = mpc.random.randrange(secint, 3, 11)
    u = mpc.random.random_unit_vector(secint, 5)
    p = mpc.random.random_permutation(secint, 4)
    ok1 = (x >= 3) & (x < 11)
    r = await mpc.output([ok1, mpc.sum(u)] + sorted_(mpc, p))
    await mpc.shutdown()
    return r


def sorted_(mpc, p):
    return mpc.sorted(p)


async def p_gcd(mpc, arg):
    await mpc.start()
    secint = mpc.SecInt(8)
    a = mpc.input(secint(18), senders=0)
    b = mpc.input(secint(12), senders=0)
    r = await mpc.output([mpc.gcd(a, b), mpc.lcm(a, b), a % 5, mpc.lsb(a), a // 4])
    await mpc.shutdown()
    return r


async def p_random_ops(mpc, seed):
    """random operator program over SecInt(8) (same on all parties: driven by the public seed)"""
    await mpc.start()
    r = random.Random(seed)
    secint = mpc.SecInt(8)
    m = len(mpc.parties)
    vals = [r.randint(-5, 5) for _ in range(3)]
    regs = [mpc.input(secint(v), senders=r.randrange(m)) for v in vals]
    ref = list(vals)
    outs = []
    for step in range(r.randint(4, 9)):
        op = r.choice(('add', 'sub', 'mul', 'lt', 'eq', 'ifelse', 'max', 'neg', 'out', 'await', 'abs', 'mod'))
        i, j, k = (r.randrange(len(regs)) for _ in range(3))
        if op == 'add':
            v, x = ref[i] + ref[j], regs[i] + regs[j]
        elif op == 'sub':
            v, x = ref[i] - ref[j], regs[i] - regs[j]
        elif op == 'mul':
            v, x = ref[i] * ref[j], regs[i] * regs[j]
        elif op == 'lt':
            v, x = int(ref[i] < ref[j]), regs[i] < regs[j]
        elif op == 'eq':
            v, x = int(ref[i] == ref[j]), regs[i] == regs[j]
        elif op == 'ifelse':
            c = regs[i] >= 0
            v, x = (ref[j] if ref[i] >= 0 else ref[k]), mpc.if_else(c, regs[j], regs[k])
        elif op == 'max':
            v, x = max(ref[i], ref[j], ref[k]), mpc.max(regs[i], regs[j], regs[k])
        elif op == 'neg':
            v, x = -ref[i], -regs[i]
        elif op == 'abs':
            v, x = abs(ref[i]), abs(regs[i])
        elif op == 'mod':
            v, x = ref[i] % 3, regs[i] % 3
        elif op == 'out':
            outs.append(await mpc.output(regs[i]))
            continue
        else:
            await mpc.gather(regs[i])
            continue
        if -100 <= v <= 100:
            ref.append(v)
            regs.append(x)
    outs += await mpc.output(regs)
    if r.random() < 0.5:
        await mpc.barrier()
    await mpc.shutdown()
    return {'outs': outs, 'ok': outs[-len(regs):] == ref}


async def p_peek_mix(mpc, arg):
    """result-less coroutines (mpc.peek, a user coroutine returning None) interleaved with awaits of results that were
    requested earlier and complete at different moments at different parties"""
    await mpc.start()
    secint = mpc.SecInt(8)
    log = []

    @mpc.coroutine
    async def note(v, tag) -> None:
        log.append((tag, int(await mpc.output(v % 7))))
    x = mpc.input(secint(arg % 5 + 1), senders=0)
    y = x * x
    res = []
    for rnd_ in range(3):
        # two results requested early; when the first await returns, the second result may or may not be complete already,
        # so whether `await o2` suspends differs between parties and schedules
        o1 = mpc.output(y + rnd_)
        o2 = mpc.output(y - rnd_)
        res.append(int(await o1))       # (messages of o2 travel behind those of o1 on every connection)
        mpc.peek(x, f'p{rnd_}')
        note(y, f'n{rnd_}')
        res.append(int(await o2))
        y = y * x + 1          # forks right after an await that may not have suspended
        res.append(int(await mpc.output(y % 11)))
    a, b, c = res[0], res[1], res
    await mpc.shutdown()
    return [int(a), int(b), int(c), sorted(log)]


CORPUS = {
    'peek_mix': p_peek_mix,
    'out': p_out, 'mul2': p_mul2, 'prss': p_prss, 'conv': p_conv, 'await_fork': p_await_fork,
    'barrier': p_barrier, 'done_results': p_done_results, 'transfer': p_transfer, 'seclist': p_seclist,
    'stats': p_stats, 'fxp': p_fxp, 'fld': p_fld, 'random': p_random, 'gcd': p_gcd,
    'random_ops': p_random_ops,
}
QUICK = ['out', 'mul2', 'prss', 'await_fork', 'barrier', 'done_results', 'transfer', 'conv', 'random_ops', 'peek_mix']


# ---- exact mirrors of PCSched model programs (M=3, T=1: every party deals in _reshare) -------------

async def m_out(mpc, arg):
    await mpc.start()
    secint = mpc.SecInt(8)
    a = mpc.input(secint(mpc.pid + 1))
    o = mpc.output(a[0])
    r = await o
    await mpc.shutdown()
    return r


async def m_mul2(mpc, arg):
    await mpc.start()
    secint = mpc.SecInt(8)
    a = mpc.input(secint(mpc.pid + 1))[0]
    x = a * a
    z = x + a
    y = z * a
    o = mpc.output(y)
    r = await o
    await mpc.barrier()
    await mpc.shutdown()
    return r


async def m_await(mpc, arg):
    await mpc.start()
    secint = mpc.SecInt(8)
    a = mpc.input(secint(mpc.pid + 2))[0]
    x = a * a
    o1 = mpc.output(a)
    r1 = await o1
    y = x * a
    o2 = mpc.output(y)
    r2 = await o2
    await mpc.shutdown()
    return [r1, r2]


async def m_noawait(mpc, arg):
    await mpc.start()
    secint = mpc.SecInt(8)
    a = mpc.input(secint(mpc.pid + 2))[0]
    x = a * a
    o = mpc.output(x)
    await mpc.shutdown()
    return o.result() if o.done() else 'PENDING'


MIRRORS = {'main_out': m_out, 'main_mul2': m_mul2, 'main_await': m_await, 'main_noawait': m_noawait}
