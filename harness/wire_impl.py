"""Drive a real asyncoro.MessageExchanger pair along Wire behaviours and project its state."""
import itertools
import struct

from .sim.world import World


class CaptureTransport:
    def __init__(self):
        self.data = bytearray()
        self.closed = False

    def write(self, b):
        self.data += bytes(b)

    def writelines(self, lst):
        for b in lst:
            self.data += bytes(b)

    def close(self):
        self.closed = True

    def is_closing(self):
        return self.closed


def lab2int(lab):
    return struct.unpack('<q', bytes(lab))[0]


def int2lab(pc):
    return tuple(struct.pack('<q', pc))


class WireImpl:
    """Receiving endpoint = party `me`; sending endpoint = party `peer` (real Runtimes of one world).

    has_hs: `me` is the server side (me > peer) and the client's real connection_made output is the
    handshake; otherwise `me` is the client side (me < peer) and no handshake precedes the frames.
    """

    def __init__(self, m, t, me, peer, no_prss=False, key_byte=None):
        self.world = World(m, t, seed=1, no_prss=no_prss)
        w = self.world
        rtmod = w.rtmod
        asyncoro = __import__('mpyc.asyncoro').asyncoro
        self.me, self.peer = me, peer
        self.rt = w.rts[me]
        self.prt = w.rts[peer]
        import asyncio
        for rt in (self.rt, self.prt):
            for p in rt.parties:
                p.protocol = asyncio.Future(loop=rt._loop) if p.pid == rt.pid else None
        self.has_hs = me > peer
        # deterministic key material: j-th key (in the sender's transmission order) = 16 bytes 100+j
        if not no_prss:
            if key_byte is not None:
                j = 0
                for subset in itertools.combinations(range(m), m - t):
                    if subset[0] == peer and me in subset:
                        j += 1
                        self.prt._prss_keys[subset] = bytes([key_byte + j]) * 16
        w._switch(me)
        self.tx_tr = CaptureTransport()
        self.rx_tr = CaptureTransport()
        if self.has_hs:
            self.rx = asyncoro.MessageExchanger(self.rt)               # server side
            self.rx.connection_made(self.rx_tr)
            self.tx = asyncoro.MessageExchanger(self.prt, me)          # client side of the peer
            self.tx.connection_made(self.tx_tr)                        # writes pid + keys
        else:
            self.rx = asyncoro.MessageExchanger(self.rt, peer)         # client side
            self.rx.connection_made(self.rx_tr)
            self.tx = asyncoro.MessageExchanger(self.prt)              # server side of the peer
            self.tx.connection_made(self.tx_tr)
            self.tx.peer_pid = me
        self.arrived = 0
        self.direct = {}
        self.futs = {}
        self.err = False
        self.errtext = None

    def close(self):
        self.world.close()

    @property
    def stream(self):
        return bytes(self.tx_tr.data)

    def send(self, lab, payload):
        self.tx.send(lab2int(lab), bytes(payload))

    def arrive(self, k):
        data = self.stream[self.arrived:self.arrived + k]
        assert len(data) == k, (len(data), k)
        self.arrived += k
        try:
            self.rx.data_received(data)
        except Exception as exc:  # duplicate label: bytes has no set_result
            self.err = True
            self.errtext = repr(exc)

    def receive(self, lab):
        r = self.rx.receive(lab2int(lab))
        if isinstance(r, (bytes, bytearray)):
            self.direct[tuple(lab)] = bytes(r)
        else:
            self.futs[tuple(lab)] = r

    def nkeys_expected(self):
        m, t = self.world.m, self.world.t
        if self.rt.options.no_prss:
            return 0
        return sum(1 for s in itertools.combinations(range(m), m - t) if s[0] == self.peer and self.me in s)

    def observe(self):
        got = dict(self.direct)
        for lab, f in self.futs.items():
            if f.done():
                got[lab] = bytes(f.result())
        peer = self.rx.peer_pid if self.rx.peer_pid is not None else 999
        keys = []
        if self.has_hs and peer != 999 and not self.rt.options.no_prss:
            m, t = self.world.m, self.world.t
            for subset in itertools.combinations(range(m), m - t):
                if subset[0] == peer and self.me in subset:
                    keys.append(bytes(self.rt._prss_keys.get(subset, b'')))
        bufs = {}
        for pc, v in self.rx.buffers.items():
            bufs[int2lab(pc)] = ('pl', bytes(v)) if isinstance(v, (bytes, bytearray)) else ('fut', b'')
        return {'got': got, 'peer': peer, 'keys': keys, 'err': self.err, 'rx': bytes(self.rx.bytes),
                'buffers': bufs}
