"""Recorder: call-through wrappers at public call boundaries of mpyc, installed by the harness only
(guard MPYC_VERIF=1 is set by vcheck; nothing in /repo is patched on disk).  Events of all parties
of one simulated world go to one list in true execution order (the simulator is single-threaded).
"""
import asyncio
import struct
import sys

OFFS = 1 << 63
LIMB = 1 << 22


def limbs(h):
    """64-bit signed program counter -> three 22-bit limbs of h + 2^63 (TLC integers are 32-bit)."""
    v = h + OFFS
    assert 0 <= v < (1 << 66), h
    return [v % LIMB, (v // LIMB) % LIMB, v // (LIMB * LIMB)]


class Recorder:
    """Install with `with Recorder(world) as rec:`; rec.events is the global event list."""

    def __init__(self, world, shares=False):
        self.world = world
        self.events = []
        self.taskid = {}       # id(Task) -> tid
        self.taskobj = {}
        self.ntasks = 0
        self._saved = []
        self._last_wrapper = None

    # ------------------------------------------------------------------------------------
    def emit(self, ev, **kw):
        kw['ev'] = ev
        if 'p' not in kw:
            kw['p'] = self.world.current
        kw['n'] = len(self.events) + 1
        self.events.append(kw)

    def ctx(self):
        try:
            t = asyncio.current_task()
        except RuntimeError:
            t = None
        if t is None:
            return 0
        return self.taskid.get(id(t), 0)

    def _patch(self, obj, name, new):
        self._saved.append((obj, name, getattr(obj, name)))
        setattr(obj, name, new)

    def __enter__(self):
        rec = self
        asyncoro = sys.modules['mpyc.asyncoro']
        rtmod = sys.modules['mpyc.runtime']
        Runtime = rtmod.Runtime
        MX = asyncoro.MessageExchanger

        # --- forks ---
        OrigWrapper = asyncoro._ProgramCounterWrapper

        class Wrapper(OrigWrapper):
            __slots__ = ()

            def __init__(self, rt, coro):
                super().__init__(rt, coro)
                par = rt._program_counter
                rec._last_wrapper = self
                rec.emit('fork', ctx=rec.ctx(), pc=limbs(par[0]), d=par[1], cpc=limbs(self.pc[0]), cd=self.pc[1])
        self._patch(asyncoro, '_ProgramCounterWrapper', Wrapper)

        # --- task creation / reconcile ---
        OrigTask = asyncoro.Task

        def Task(coro, loop=None):
            t = OrigTask(coro, loop=loop)
            rec.ntasks += 1
            tid = rec.ntasks
            rec.taskid[id(t)] = tid
            rec.taskobj[tid] = t
            w = rec._last_wrapper
            haspc = w is not None and getattr(coro, 'cr_frame', None) is not None and \
                coro.cr_frame.f_locals.get('awaitable') is w
            rec._last_wrapper = None
            rt = asyncoro.runtime
            rec.emit('task', ctx=rec.ctx(), tid=tid, haspc=bool(haspc), level=rt._pc_level,
                     cpc=limbs(w.pc[0]) if haspc else [0, 0, 0], cd=w.pc[1] if haspc else 0)
            pid = rec.world.current
            # completion of the coroutine itself, observed independently of mpyc's own _reconcile callback
            t.add_done_callback(lambda _t, tid=tid, pid=pid: rec.emit('taskdone', p=pid, tid=tid))
            return t
        self._patch(asyncoro, 'Task', Task)

        orig_reconcile = asyncoro._reconcile

        def _reconcile(decl, task):
            try:
                return orig_reconcile(decl, task)
            finally:
                rec.emit('reconcile', tid=rec.taskid.get(id(task), -1), level=asyncoro.runtime._pc_level)
        self._patch(asyncoro, '_reconcile', _reconcile)

        # --- uci ---
        orig_uci = Runtime._prss_uci

        def _prss_uci(self_):
            r = orig_uci(self_)
            pc = self_._program_counter
            rec.emit('uci', ctx=rec.ctx(), pc=limbs(pc[0]), d=pc[1])
            return r
        self._patch(Runtime, '_prss_uci', _prss_uci)

        # --- send / receive ---
        orig_send = Runtime._send_message
        orig_recv = Runtime._receive_message

        def _send_message(self_, peer_pid, data):
            pc = self_._program_counter
            rec.emit('send', ctx=rec.ctx(), peer=peer_pid, pc=limbs(pc[0]), d=pc[1], len=len(data))
            return orig_send(self_, peer_pid, data)

        def _receive_message(self_, peer_pid):
            pc = self_._program_counter
            r = orig_recv(self_, peer_pid)
            rec.emit('recv', ctx=rec.ctx(), peer=peer_pid, pc=limbs(pc[0]), d=pc[1],
                     imm=not isinstance(r, asyncio.Future))
            return r
        self._patch(Runtime, '_send_message', _send_message)
        self._patch(Runtime, '_receive_message', _receive_message)

        # --- barrier / shutdown / connections ---
        orig_barrier = Runtime.barrier

        async def barrier(self_, name=None):
            pc = self_._program_counter
            rec.emit('barrier_in', ctx=rec.ctx(), level=self_._pc_level, d=pc[1])
            try:
                return await orig_barrier(self_, name)
            finally:
                rec.emit('barrier_out', ctx=rec.ctx(), level=self_._pc_level, d=self_._program_counter[1])
        self._patch(Runtime, 'barrier', barrier)

        orig_shutdown = Runtime.shutdown

        async def shutdown(self_):
            rec.emit('shutdown_in', ctx=rec.ctx(), level=self_._pc_level, d=self_._program_counter[1])
            try:
                return await orig_shutdown(self_)
            finally:
                rec.emit('shutdown_out', ctx=rec.ctx(), level=self_._pc_level)
        self._patch(Runtime, 'shutdown', shutdown)

        orig_close = MX.close_connection

        def close_connection(self_):
            rec.emit('close', peer=self_.peer_pid, level=self_.runtime._pc_level)
            return orig_close(self_)
        self._patch(MX, 'close_connection', close_connection)

        orig_set = Runtime.set_protocol
        orig_unset = Runtime.unset_protocol

        def set_protocol(self_, peer_pid, protocol):
            rec.emit('set', p=self_.pid, peer=peer_pid)
            return orig_set(self_, peer_pid, protocol)

        def unset_protocol(self_, peer_pid):
            rec.emit('unset', p=self_.pid, peer=peer_pid if peer_pid is not None else -1)
            return orig_unset(self_, peer_pid)
        self._patch(Runtime, 'set_protocol', set_protocol)
        self._patch(Runtime, 'unset_protocol', unset_protocol)
        return self

    def __exit__(self, *exc):
        for obj, name, old in reversed(self._saved):
            setattr(obj, name, old)
        self._saved.clear()
        return False


def parse_frames(stream, hs_len):
    """Independent frame parser over raw wire bytes: returns ([(pc, len)], leftover)."""
    frames = []
    i = hs_len
    n = len(stream)
    while n - i >= 12:
        pc, size = struct.unpack_from('<qI', stream, i)
        if n - i < 12 + size:
            break
        frames.append((pc, size))
        i += 12 + size
    return frames, n - i
