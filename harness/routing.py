"""Routing experiments on real worlds (shared by C07 and C19): one transfer / input / output operation per
run, per-party results, messages sent inside the operation window, and the with/without byte difference."""
import itertools
import random
import struct

from .sim.world import World, RandomScheduler
from .runs import hs_len

PAYLOADS = [('v', 0), {'k': [1, 2]}, 'two', 3.5, (4, (4,)), b'five', [6], frozenset({7})]


def payload(p):
    return PAYLOADS[p % len(PAYLOADS)] if p < len(PAYLOADS) else ('p', p)


def norm_arcs(m, kw):
    """sender order of the graph, as Routing.tla defines it"""
    if 'sender_receivers' in kw:
        sr = kw['sender_receivers']
        if isinstance(sr, dict):
            return [[a, b] for a, bs in sr.items() for b in bs]
        return [list(x) for x in sr]
    S = kw.get('senders')
    R = kw.get('receivers')
    S = list(range(m)) if S is None else ([S] if isinstance(S, int) else list(S))
    R = list(range(m)) if R is None else ([R] if isinstance(R, int) else list(R))
    return [[a, b] for b in R for a in S]


class Window:
    """observer: bytes written per (src, dst) while src is inside its operation window"""

    def __init__(self, m):
        self.inside = [False] * m
        self.sent = []          # (src, dst, nbytes)

    FN = {'output': 1, 'transfer': 2, '_distribute': 3, '_reshare': 4}

    def note_write(self, src, dst, data):
        if self.inside[src]:
            import sys
            f = sys._getframe(1)
            fn = 0
            while f is not None:
                if f.f_code.co_name == '_send_message':
                    g = f.f_back
                    # skip the recorder's call-through wrapper if present
                    while g is not None and g.f_code.co_name == '_send_message':
                        g = g.f_back
                    fn = self.FN.get(g.f_code.co_name, 0) if g is not None else 0
                    break
                f = f.f_back
            self.sent.append((src, dst, fn))


async def prog(mpc, spec, win, with_op):
    await mpc.start()
    kind = spec['kind']
    m = len(mpc.parties)
    secint = mpc.SecInt(8)
    x = None
    if kind == 'output':
        st = spec['stype']
        if st == 'int':
            x = mpc.input(secint(spec['value']), senders=0)
        elif st == 'fld':
            x = mpc.input(mpc.SecFld(101)(spec['value']), senders=0)
        elif st == 'fxp':
            x = mpc.input(mpc.SecFxp(12, 4)(spec['value'] / 4), senders=0)
        elif st == 'flt':
            x = mpc.input(mpc.SecFlt(16)(float(spec['value'])), senders=0)
        elif st == 'grp':
            G = mpc.SecGrp(__import__('mpyc.fingroups', fromlist=['x']).QuadraticResidues(l=8))
            g = G.group.generator
            x = mpc.input(G(g ^ spec['value']), senders=0)
        if spec.get('list'):
            x = [x, x]
        await mpc.gather(x) if st in ('int', 'fld', 'fxp') else None
    if kind == 'input':
        pass
    await mpc.barrier()
    # synchronise so that nothing of the set-up is still being sent when the window opens
    await mpc.transfer(0)
    res = 'skipped'
    win.inside[mpc.pid] = True
    if with_op:
        if kind == 'transfer':
            res = await mpc.transfer(payload(mpc.pid), **spec['kw'])
        elif kind == 'output':
            kw = {}
            if spec.get('receivers') is not None:
                kw['receivers'] = spec['receivers']
            if spec.get('threshold') is not None:
                kw['threshold'] = spec['threshold']
            res = await mpc.output(x, **kw)
            if spec.get('list') and res is not None:
                res = res[0] if res[0] == res[1] else ('list-mismatch', res)
        elif kind == 'input':
            s = spec['senders']
            y = mpc.input(secint(mpc.pid + 10), senders=s)
            win.inside[mpc.pid] = False
            if isinstance(s, int):
                y = [y]
            res = await mpc.output(list(y))
    win.inside[mpc.pid] = False
    await mpc.shutdown()
    return res


def run_spec(spec, m, t, seed, no_prss=False):
    """returns event dict for RoutingTrace (or raises nothing: failures are encoded in res)"""
    out = {}
    for with_op in (True, False):
        win = Window(m)
        w = World(m, t, seed=seed, no_prss=no_prss)
        w.observers.append(win)
        try:
            w.spawn(prog, spec, win, with_op)
            st = w.run(RandomScheduler(seed + 1, 'mixed'), max_steps=200000)
        finally:
            w.close()
        rx = [0] * m
        for (c, s), conn in w.net.conns.items():
            rx[s] += len(conn.sent[c])
            rx[c] += len(conn.sent[s])
        out[with_op] = dict(status=st, results=list(w.results), errors=w.errors, win=win, rx=rx, done=list(w.done))
    a, b = out[True], out[False]
    ev = {'kind': spec['kind'] + ('_flt' if spec.get('stype') == 'flt' else ''), 'm': m, 't': t, 'th': spec.get('threshold') if spec.get('threshold') is not None else t,
          'arcs': [], 'sint': False, 'vals': [], 'R': [], 'senders': [], 'res': [], 'sent': [], 'extra': [],
          'status': a['status'], 'errors': [e[:1] for e in a['errors']], 'spec': repr(spec)}
    ev['sent'] = [list(x) for x in sorted(set(a['win'].sent) - set(b['win'].sent))]
    ev['extra'] = [a['rx'][i] - b['rx'][i] for i in range(m)] if b['status'] == 'done' else [0] * m
    kind = spec['kind']
    if kind == 'transfer':
        kw = spec['kw']
        ev['arcs'] = norm_arcs(m, kw)
        ev['sint'] = isinstance(kw.get('senders'), int)
        ev['vals'] = [100 + p for p in range(m)]

        def ident(obj):
            for p in range(m):
                if obj == payload(p) and type(obj) is type(payload(p)):
                    return 100 + p
            return 999
        for r in range(m):
            if a['errors'][r] or not a['done'][r] or a['status'] != 'done':
                ev['res'].append([-2])
            else:
                v = a['results'][r]
                if ev['sint']:
                    ev['res'].append([-1] if v is None else [ident(v)])
                else:
                    ev['res'].append([-1] if v is None else [ident(o) for o in v] if isinstance(v, list) else [998])
    elif kind == 'output':
        R = spec.get('receivers')
        R = list(range(m)) if R is None else ([R] if isinstance(R, int) else list(R))
        ev['R'] = R
        ev['vals'] = [spec['value']]
        for r in range(m):
            if a['errors'][r] or not a['done'][r] or a['status'] != 'done':
                ev['res'].append([-2])
            else:
                v = a['results'][r]
                if v is None:
                    ev['res'].append([-1])
                else:
                    st = spec['stype']
                    try:
                        if st == 'fxp':
                            v = round(float(v) * 4)
                        elif st == 'flt':
                            v = round(float(v))
                        elif st == 'grp':
                            import sys
                            fg = sys.modules['mpyc.fingroups']
                            g = fg.QuadraticResidues(l=8).generator
                            v = next((e for e in range(64) if (g ^ e) == v), 997)
                        else:
                            v = int(v)
                    except Exception:
                        v = 996
                    ev['res'].append([v])
    else:
        s = spec['senders']
        sl = [s] if isinstance(s, int) else list(s)
        ev['senders'] = sl
        ev['vals'] = [p + 10 for p in range(m)]
        for r in range(m):
            if a['errors'][r] or not a['done'][r] or a['status'] != 'done':
                ev['res'].append([-2])
            else:
                ev['res'].append([int(v) for v in a['results'][r]])
    return ev


def specs(m, t, rnd, quick):
    """routing configurations for m parties"""
    out = []
    subsets = [list(s) for r in range(0, m + 1) for s in itertools.combinations(range(m), r)]
    # transfer, senders/receivers form
    for S in subsets:
        for R in subsets:
            if not S or not R:
                continue
            out.append({'kind': 'transfer', 'kw': {'senders': S, 'receivers': R}})
    for a in range(m):
        out.append({'kind': 'transfer', 'kw': {'senders': a}})
        out.append({'kind': 'transfer', 'kw': {'receivers': a}})
        for R in subsets[1:]:
            out.append({'kind': 'transfer', 'kw': {'senders': a, 'receivers': R}})
    out.append({'kind': 'transfer', 'kw': {'senders': list(range(m))[::-1], 'receivers': range(m)}})
    out.append({'kind': 'transfer', 'kw': {}})
    # pair lists with <= 4 arcs
    allarcs = [(a, b) for a in range(m) for b in range(m)]
    for n in (1, 2, 3, 4):
        for _ in range(6 if quick else 40):
            out.append({'kind': 'transfer', 'kw': {'sender_receivers': rnd.sample(allarcs, min(n, len(allarcs)))}})
    # dicts: complete (every party a key) and partial
    for _ in range(8 if quick else 60):
        keys = list(range(m))
        rnd.shuffle(keys)
        out.append({'kind': 'transfer', 'kw': {'sender_receivers': {a: rnd.choice(subsets) for a in keys}}})
    for _ in range(4 if quick else 30):
        keys = rnd.sample(range(m), rnd.randint(1, m - 1)) if m > 1 else [0]
        out.append({'kind': 'transfer', 'kw': {'sender_receivers': {a: rnd.choice(subsets[1:]) for a in keys}}})
    # input
    for S in subsets[1:]:
        out.append({'kind': 'input', 'senders': S})
    for a in range(m):
        out.append({'kind': 'input', 'senders': a})
    out.append({'kind': 'input', 'senders': list(range(m))[::-1]})
    # output: receivers x threshold x type
    for R in subsets[1:] + [None] + list(range(m)):
        for th in ([None] + list(range(t, 2 * t + 1))):
            for st in ('int', 'fld', 'fxp'):
                if quick and st != 'int' and rnd.random() < 0.6:
                    continue
                out.append({'kind': 'output', 'stype': st, 'receivers': R, 'threshold': th,
                            'value': rnd.randint(1, 20), 'list': rnd.random() < 0.3})
    return out
