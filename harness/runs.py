"""Recorded runs of real programs in the simulator and their validation by TLC (RtTrace)."""
import json
import os

from . import tlc
from .rec import Recorder, limbs, parse_frames
from .sim.world import World, RandomScheduler, PriorityScheduler

DEFAULTS = dict(ctx=0, peer=0, pc=[0, 0, 0], d=0, cpc=[0, 0, 0], cd=0, tid=0, haspc=False, level=0, len=0,
                frames=[], rest=0, imm=False)


FIELDS = ('ev', 'p', 'ctx', 'peer', 'pc', 'd', 'cpc', 'cd', 'tid', 'haspc', 'level', 'len', 'frames', 'rest')


def norm(ev):
    d = dict(DEFAULTS)
    d.update(ev)
    d.pop('n', None)
    return d


def tup(e):
    return [e[k] for k in FIELDS]


def hs_len(world, src, dst):
    """length of the handshake at the start of wire src -> dst (only client -> server carries one)"""
    if src > dst:
        return 0
    rt = world.rts[src]
    if rt.options.no_prss:
        return 2
    import itertools
    m, t = world.m, world.t
    n = sum(1 for s in itertools.combinations(range(m), m - t) if s[0] == src and dst in s)
    return 2 + 16 * n


def run_recorded(prog, arg, m, t, seed, scheduler=None, max_steps=1500000, crash=None, observers=(), **kw):
    """Run prog on all parties; returns dict(status, results, errors, events, world)."""
    w = World(m, t, seed=seed, **kw)
    w.observers.extend(observers)
    rec = Recorder(w)
    try:
        with rec:
            w.spawn(prog, arg)
            status = w.run(scheduler or RandomScheduler(seed), max_steps=max_steps)
    finally:
        w.close()
    events = [norm(e) for e in rec.events]
    # independent parser over the raw bytes of every directed connection
    for (c, s), conn in sorted(w.net.conns.items()):
        for src, dst in ((c, s), (s, c)):
            frames, rest = parse_frames(bytes(conn.sent[src]), hs_len(w, src, dst))
            events.append(norm({'ev': 'wire', 'p': src, 'peer': dst,
                                'frames': [[limbs(pc), ln] for pc, ln in frames], 'rest': rest}))
    complete = status == 'done' and not any(w.errors) and (m == 1 or len(w.net.conns) == m * (m - 1) // 2)
    if complete:
        left = 0
        for conn in w.net.conns.values():
            for tr in conn.tr.values():
                left += len(tr.protocol.buffers) + len(tr.protocol.bytes)
        events.append(norm({'ev': 'end', 'p': 0, 'rest': left}))
    return {'status': status, 'results': w.results, 'errors': w.errors, 'events': events, 'world': w,
            'complete': complete, 'm': m, 't': t, 'steps': w.steps}


def validate_runs(ctx, runs, name='RtTrace', timeout=1800):
    """TLC-validate a batch of recorded runs.  Returns list of (run index, verdict, event index)."""
    if not runs:
        return []
    wd = tlc.make_workdir()
    try:
        tf = os.path.join(wd, 'runs.json')
        with open(tf, 'w') as f:
            json.dump([{'m': r['m'], 'ev': [tup(e) for e in r['events']]} for r in runs], f, separators=(',', ':'))
        cfg = os.path.join(wd, 'rt.cfg')
        tlc.write_cfg(cfg, invariants=['Accepted'], view='View')
        bad = []
        # TLC stops at the first violated run: re-run without the offending runs to find all (bounded)
        todo = list(range(len(runs)))
        for attempt in range(6):
            res = tlc.run_tlc('RtTrace', cfg, workdir=wd, env={'TRACE_FILE': tf}, timeout=timeout)
            ctx.add_tlc(res, name)
            if res.ok:
                break
            st = res.cex[-1] if res.cex else ''
            import re
            mr = re.search(r'/\\ run = (\d+)', st)
            mi = re.search(r'/\\ i = (\d+)', st)
            mv = re.search(r'/\\ verdict = "([^"]*)"', st)
            if not (mr and mi and mv):
                raise tlc.TLCError('cannot parse RtTrace counterexample:\n' + res.stdout[-3000:])
            k = int(mr.group(1)) - 1
            bad.append((todo[k], mv.group(1), int(mi.group(1)) - 1))
            del todo[k]
            if not todo:
                break
            with open(tf, 'w') as f:
                json.dump([{'m': runs[j]['m'], 'ev': [tup(e) for e in runs[j]['events']]} for j in todo], f, separators=(',', ':'))
        return bad
    finally:
        tlc.rm_workdir(wd)


def schedulers(m, seed, tier_quick=True):
    """Systematic schedule families + seeded random ones: list of (name, factory)."""
    import itertools
    import random
    fams = []
    perms = list(itertools.permutations(range(m)))
    r = random.Random(seed)
    if len(perms) > 6:
        perms = r.sample(perms, 6)
    for perm in perms:
        for lazy in (False, True):
            fams.append((f'prio{perm}{"L" if lazy else "E"}', lambda perm=perm, lazy=lazy: PriorityScheduler(perm, lazy, 'all', seed=seed)))
    fams.append(('prio-hdr', lambda: PriorityScheduler(perms[0], True, 'hdr', seed=seed)))
    if not tier_quick:
        fams.append(('prio-byte', lambda: PriorityScheduler(perms[-1], False, 'byte', seed=seed)))
    return fams


def corpus_check(ctx, prop, names, cfgs, nrand, budget_events, clauses=None, nfam=3, extra_progs=None,
                 prss_modes=(False, True)):
    """Programs x configurations x schedules: completion, schedule-independent outputs, RtTrace.

    clauses: None = every RtTrace verdict is a violation of prop; otherwise only verdicts in clauses
    (other verdicts belong to another property's check and are ignored here)."""
    import random
    from .programs import CORPUS
    rnd = random.Random(ctx.seed)
    progs = dict(CORPUS)
    progs.update(extra_progs or {})
    runs = []
    nev = 0
    per_name = max(1, budget_events // max(1, len(names)))
    used = {}
    for name in names:
        prog = progs[name]
        args = [ctx.seed + 11] if name != 'random_ops' else [ctx.seed * 7 + k for k in range(3 if ctx.quick else 10)]
        for arg in args:
            for (m, t) in cfgs:
                for no_prss in prss_modes:
                    outs = {}
                    scheds = [(f'random{s}', lambda s=s: RandomScheduler(ctx.seed * 77 + s)) for s in range(nrand)]
                    fam = schedulers(m, ctx.seed + m, ctx.quick)
                    scheds += fam if not ctx.quick else rnd.sample(fam, min(nfam, len(fam)))
                    for sname, mk in scheds:
                        r = run_recorded(prog, arg, m, t, seed=ctx.seed, scheduler=mk(), no_prss=no_prss)
                        ctx.case((name, arg, m, t, no_prss, sname))
                        if not r['complete']:
                            ctx.violation(f'{prop}:run:{name}:not-complete', {
                                'program': name, 'arg': arg, 'm': m, 't': t, 'no_prss': no_prss,
                                'schedule': sname, 'status': r['status'], 'errors': r['errors'],
                                'steps': r['steps']})
                            continue
                        outs.setdefault(repr(r['results']), sname)
                        if used.get(name, 0) < per_name and len(r['events']) < 30000:
                            used[name] = used.get(name, 0) + len(r['events'])
                            r.pop('world')
                            r['tag'] = (name, arg, m, t, no_prss, sname)
                            runs.append(r)
                            nev += len(r['events'])
                    if len(outs) > 1:
                        ctx.violation(f'{prop}:run:{name}:outputs-depend-on-schedule', {
                            'program': name, 'arg': arg, 'm': m, 't': t, 'no_prss': no_prss, 'outputs': outs})
    bad = validate_runs(ctx, runs, 'RtTrace[corpus]')
    ctx.traces += len(runs)
    for (k, verdict, idx) in bad:
        r = runs[k]
        if clauses is None or verdict in clauses:
            ctx.violation(f'{prop}:trace:{verdict}', {'run': r['tag'], 'event_index': idx,
                                                     'event': r['events'][idx] if idx < len(r['events']) else None})
        else:
            ctx.drift.append(f'RtTrace verdict {verdict} on {r["tag"]} (belongs to another property)')
    ctx.notes['events_validated'] = ctx.notes.get('events_validated', 0) + nev
    if runs:
        ctx.sample({'run': runs[0]['tag'], 'events': [(e['ev'], e['p']) for e in runs[0]['events'][:12]]})
    return runs
