#!/bin/sh
# Offline setup: nothing to build for the core framework (TLC + /venv python + stdlib).
# The NumPy side venv (C37/C38) is created from the offline wheelhouse if missing.
set -e
cd "$(dirname "$0")"
mkdir -p out evidence
if [ ! -x .venv-np/bin/python ]; then
  /venv/bin/python -m venv .venv-np >/dev/null 2>&1 || true
  if [ -x .venv-np/bin/pip ]; then
    .venv-np/bin/pip install --no-index --find-links /opt/veriftools/wheels numpy >/dev/null 2>&1 || echo "numpy side venv unavailable"
  fi
fi
echo setup done
