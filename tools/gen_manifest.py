#!/usr/bin/env python3
"""Regenerate MANIFEST.json from the table below (keeps it valid at all times)."""
import json
import os

ROOT = os.path.dirname(os.path.dirname(os.path.abspath(__file__)))
ALL = [f'C{i:02d}' for i in range(1, 40)]

# property -> (technique, level text, level note, design ref)
CHECKS = {
    'C10': ('TLC exhaustive model check of Wire.tla + every graph edge replayed on the real MessageExchanger + '
            'enumerated chunkings of real streams validated by TLC against WireTrace.tla',
            'Exhaustive for the stated sizes: every chunking x receive order x interleaved send of 2-3 frames and of '
            'the handshake in the model; every edge of those graphs executed on the real code; all 2^(n-1) chunkings '
            'of single frames and all <=2/3-cut chunkings of multi-frame streams and real handshakes (m<=7) validated '
            'as Wire behaviours.',
            'Model payloads < 256 bytes; TCP in-order delivery; asyncio calls data_received with arbitrary chunks.',
            'DESIGN.md 2.1, C10'),
    'C08': ('TLC exhaustive model check of PCSched.tla (all interleavings, liveness under fairness) + label prediction and '
            'TLC-simulated behaviours replayed into the real runtime in the in-process simulator + recorded runs '
            'validated by TLC against RtTrace.tla',
            'All interleavings of task steps / reconciles / deliveries of constant programs (M=3, T=1; M=4 thorough) in '
            'the model: schedule-independent labels, deadlock freedom, termination under weak fairness, unique terminal '
            'state. The labels the model predicts per connection (evaluated through the real _hop) equal those of the '
            'mirrored real programs under random, priority and TLC-projected schedules; a corpus of real programs runs to '
            'completion with identical outputs under all schedule families and every event trace is accepted by RtTrace '
            '(pc discipline per coroutine context).',
            'Bounded programs and schedules; _hop treated as collision free; schedules fair; simulator reproduces '
            'asyncio ordering guarantees (connection_made before data_received, FIFO per connection).',
            'DESIGN.md 2.3, C08'),
    'C09': ('TLC model check of PCSched.tla (UniqueLabels, ConsumedOnce, Quiet) and Wire.tla with a duplicated label + '
            'recorded runs validated by TLC against RtTrace.tla (positional matching of sends with independently parsed wire frames)',
            'Model: unique labels, each consumed once, nothing in flight/buffered/awaited at termination, for all '
            'interleavings of the constant programs. Code: for every recorded run, per directed connection the labels are '
            'pairwise distinct, the frames parsed independently from the raw bytes equal the sends (order, label, size), '
            'sent = received label sets at the end, and all buffers are empty after shutdown.',
            'Bounded corpus/configurations/schedules; hash collisions reported only when observed.',
            'DESIGN.md 2.1, 2.3, C09'),
    'C35': ('TLC model check of PCSched.tla (BarrierSound, LevelCount, termination) + recorded runs with barriers under all '
            'schedule families validated by TLC against RtTrace.tla (open-coroutine accounting)',
            'Model: main finishes only when every coroutine is reconciled, for all interleavings. Code: every depth-0 '
            'barrier exit and every connection close in the recorded runs happens with no open coroutine started before; '
            '_pc_level equals the number of open coroutines there; all connections are deregistered; all parties finish.',
            'Barriers enabled; bounded programs; fair schedules.',
            'DESIGN.md 2.3, C35'),
}
NA_REASON = 'check not built yet in this session (planned, see DESIGN.md section 3); not claimed'


def main():
    checks = []
    for pid in ALL:
        if pid not in CHECKS:
            continue
        tech, text, note, ref = CHECKS[pid]
        checks.append({
            'property_id': pid,
            'quick_cmd': f'./vcheck {pid} --tier quick',
            'thorough_cmd': f'./vcheck {pid} --tier thorough',
            'evidence_file': f'evidence/{pid}.json',
            'replay_cmd_template': './vcheck --replay {path}',
            'engine': 'tlc+harness',
            'level_claimed': {'category': 'model_checking', 'text': text, 'design_ref': ref},
            'level_note': note,
            'technique': tech,
        })
    man = {
        'version': 1,
        'setup_cmd': './setup.sh',
        'hooks': {
            'guard': 'MPYC_VERIF',
            'enable': 'no source patch: with MPYC_VERIF=1 the harness installs call-through wrappers around public '
                      'call boundaries of mpyc (imported from /repo working tree via VERIF_REPO, default /repo)',
            'baseline_off_cmd': 'cd /repo && /venv/bin/python -m pytest -ra -q -p no:cacheprovider --timeout=900 '
                                '--continue-on-collection-errors',
            'source_commits': [],
            'add_only': True,
        },
        'engines': [
            {'name': 'tlc+harness', 'path': 'vcheck', 'serves_properties': sorted(CHECKS),
             'kind_free_text': 'TLA+ specifications in spec/ checked by TLC; Python harness (harness/) replays TLC '
                               'behaviours into the real code and validates recorded traces of the real code with TLC'}],
        'checks': checks,
        'notes': 'See DESIGN.md. Known findings: known_findings.json. Seeded changes: seeded/.',
        'not_applicable': [{'property_id': p, 'reason': NA.get(p, NA_REASON)} for p in ALL if p not in CHECKS],
    }
    with open(os.path.join(ROOT, 'MANIFEST.json'), 'w') as f:
        json.dump(man, f, indent=1)
    print('claimed', len(checks), 'not_applicable', len(man['not_applicable']))


NA = {}

if __name__ == '__main__':
    main()
