#!/usr/bin/env python3
"""Regenerate MANIFEST.json from the table below (keeps it valid at all times)."""
import json
import os

ROOT = os.path.dirname(os.path.dirname(os.path.abspath(__file__)))
ALL = [f'C{i:02d}' for i in range(1, 40)]

# property -> (technique, level text, level note, design ref)
CHECKS = {
    'C10': ('TLC exhaustive model check of Wire.tla + every graph edge replayed on the real MessageExchanger + '
            'enumerated chunkings of real streams validated by TLC against WireTrace.tla',
            'Exhaustive for the stated sizes: every chunking x receive order x interleaved send of 2-3 frames and of '
            'the handshake in the model; every edge of those graphs executed on the real code; all 2^(n-1) chunkings '
            'of single frames and all <=2/3-cut chunkings of multi-frame streams and real handshakes (m<=7) validated '
            'as Wire behaviours.',
            'Model payloads < 256 bytes; TCP in-order delivery; asyncio calls data_received with arbitrary chunks.',
            'DESIGN.md 2.1, C10'),
    'C08': ('TLC exhaustive model check of PCSched.tla (all interleavings, liveness under fairness) + label prediction and '
            'TLC-simulated behaviours replayed into the real runtime in the in-process simulator + recorded runs '
            'validated by TLC against RtTrace.tla',
            'All interleavings of task steps / reconciles / deliveries of constant programs (M=3, T=1; M=4 thorough) in '
            'the model: schedule-independent labels, deadlock freedom, termination under weak fairness, unique terminal '
            'state. The labels the model predicts per connection (evaluated through the real _hop) equal those of the '
            'mirrored real programs under random, priority and TLC-projected schedules; a corpus of real programs runs to '
            'completion with identical outputs under all schedule families and every event trace is accepted by RtTrace '
            '(pc discipline per coroutine context).',
            'Bounded programs and schedules; _hop treated as collision free; schedules fair; simulator reproduces '
            'asyncio ordering guarantees (connection_made before data_received, FIFO per connection).',
            'DESIGN.md 2.3, C08'),
    'C09': ('TLC model check of PCSched.tla (UniqueLabels, ConsumedOnce, Quiet) and Wire.tla with a duplicated label + '
            'recorded runs validated by TLC against RtTrace.tla (positional matching of sends with independently parsed wire frames)',
            'Model: unique labels, each consumed once, nothing in flight/buffered/awaited at termination, for all '
            'interleavings of the constant programs. Code: for every recorded run, per directed connection the labels are '
            'pairwise distinct, the frames parsed independently from the raw bytes equal the sends (order, label, size), '
            'sent = received label sets at the end, and all buffers are empty after shutdown.',
            'Bounded corpus/configurations/schedules; hash collisions reported only when observed.',
            'DESIGN.md 2.1, 2.3, C09'),
    'C35': ('TLC model check of PCSched.tla (BarrierSound, LevelCount, termination) + recorded runs with barriers under all '
            'schedule families validated by TLC against RtTrace.tla (open-coroutine accounting)',
            'Model: main finishes only when every coroutine is reconciled, for all interleavings. Code: every depth-0 '
            'barrier exit and every connection close in the recorded runs happens with no open coroutine started before; '
            '_pc_level equals the number of open coroutines there; all connections are deregistered; all parties finish.',
            'Barriers enabled; bounded programs; fair schedules.',
            'DESIGN.md 2.3, C35'),
    'C07': ('TLC model check of RoutingMC.tla / ShareProto.tla + every routing configuration run on real worlds and validated by TLC against RoutingTrace.tla',
            'Design: for every senders/receivers pair and dict graph (3-4 parties) the per-party views transfer() derives match the graph; every receiver subset/threshold of output obtains the value. Code: every routing configuration for m <= 4 (sampled m <= 7) of transfer/input/output executed on real worlds; every party\'s result equals the specified one.',
            'Bounded m; payload identity by equality+type; empty list counts as nothing for list forms of transfer.', 'DESIGN.md 2.6, C07'),
    'C11': ('TLC model check of ShareProto.tla (Consistent for all dealer polynomials / uci) + god-view shares of real runs interpolated by TLC (SharesTrace.tla)',
            'Design: in the pipeline output(reshare(a op b)) the shares of every value lie on a polynomial of its degree bound with the value as constant term, for every coefficient tuple and uci. Code: at the end of real programs over small fields (m in 2..7, PRSS on/off) the m shares of every live value interpolate to degree <= t with constant term = opened value.',
            'Fields <= 10 bits; shares read after completion of all operations.', 'DESIGN.md 2.6, C11'),
    'C12': ('TLC exhaustive check of ShamirMC.tla + real random_split/recombine (list and NumPy) driven through every coefficient tuple and validated by TLC (ShamirTrace.tla)',
            'Exhaustive over secrets, coefficient tuples, subsets >= t+1 and evaluation points for GF(5),GF(7),GF(11),GF(13),GF(2^2),GF(2^3),GF(3^2) and (m,t) up to (7,3) in the model; the real functions reproduce Split/Lagrange on every enumerated case (scripted randbelow).',
            'Larger fields not decided by TLC (32-bit integers).', 'DESIGN.md 2.5, C12'),
    'C13': ('TLC exact uniformity check (ShamirMC.ViewUniform) + binding of random_split to Split and randbelow call pattern validated by TLC',
            'Exact: every coalition view is produced by the same number of coefficient tuples for every secret (exhaustive over dealer randomness); the real random_split is Split on those fields and draws exactly t values per secret, each over the whole field.',
            'secrets.randbelow uniform and independent.', 'DESIGN.md 2.5, C13'),
    'C14': ('TLC (ShareProto, ShamirMC) + every runtime dealing call of real programs recorded and validated by TLC (SharesTrace.DealOK)',
            'Every random_split call made by the runtime in the recorded programs (input, resharing, no-PRSS randomness/bits/conversion) uses threshold t, exactly t draws per secret over the whole field; with 64-bit fields no dealt secret appears as a payload on the dealer\'s wires.',
            'Bounded corpus; clear-text comparison only for fields > 2^40.', 'DESIGN.md 2.6, C14'),
    'C15': ('TLC check of PrssMC.tla over all/sparse PRF output assignments + real pseudorandom_share(_zero) and NumPy variants with stub PRFs validated by TLC (PrssTrace.tla)',
            'Model: degree <= t with secret = sum of PRF outputs, zero-shares degree <= 2t secret 0, for every assignment (small cases) or every assignment with <= 2 nonzero entries. Code: list and array variants equal Share/ZeroShare on enumerated/sampled PRF outputs, batch sizes 0,1,3, and interpolate as stated.',
            'PRF outputs arbitrary field elements.', 'DESIGN.md 2.5, C15'),
    'C16': ('TLC model check of Keys.tla (all handshake orders, m <= 5; simulation for m = 6,7) + terminal state and client order compared with real runtimes after real start() under byte-level schedules',
            'All orders of connection set-up/handshake completion in the model; the real key maps after start() equal the model\'s unique terminal state for every (m,t) under byte-by-byte, header-size and random chunkings.',
            'm = 6, 7 by TLC simulation.', 'DESIGN.md 2.2, C16'),
    'C19': ('TLC (ShareProto.OnlyReceiversHear, RoutingMC) + per-operation message attribution and with/without byte difference on real worlds validated by TLC (RoutingTrace.HearOK/QuietOK)',
            'For every receiver subset (m <= 4, sampled m <= 7), thresholds t..2t, five secure types and all graph forms: frames written inside the operation go only to receivers from their th predecessors / along arcs; non-receivers get zero extra bytes; for secure floats to a subset non-receivers get dealing messages only.',
            'Attribution by operation window with nothing else pending.', 'DESIGN.md 2.6, C19'),
    'C36': ('TLC model check of PCSchedCrash.tla (every crash point/prefix) + fault enumeration on real worlds',
            'Every schedule position with bytes in flight x victim x cut position (frame/header boundaries, inside frames) x EOF/error close for bounded real programs: every output a survivor completes equals the reference; model: label discipline and consumed-were-sent survive any crash.',
            'One crash per run; bounded programs.', 'DESIGN.md 2.4, C36'),
    'C01': ('TLC-simulated walks of the SecInt register machine replayed on real party worlds + operation tables of real worlds validated by TLC (SecIntTrace.tla)',
            'All 4-bit operand pairs (sampled for 8/16 bits, range extremes included) of every operation of the statement on m in 1..7, PRSS on/off, k in {14,30}: every party\'s output equals Python integer arithmetic (TLC evaluates the specification per recorded event); compositions through TLC-generated machine walks.',
            'Bit lengths <= 16, k >= 14 (tiny fields make the public zero test fail with probability 1/p).', 'DESIGN.md C01'),
    'C02': ('Recorded fixed-point results of real party worlds validated by TLC against the interval semantics of SecFxp.tla',
            'All documented bounds (exact +,-,comparisons; 1 unit products; 2(1+|x|) float factors; 16(1+|x|) division/reciprocal; floor/ceil trunc; powers; sin/cos against a harness enclosure) checked in exact integer arithmetic for sampled/all representable inputs of (8,4),(10,5),(6,3) (thorough more) on m in {1,3,4,..}.',
            'sin/cos reference enclosure from math.sin/cos; types <= 16 bits.', 'DESIGN.md C02'),
    'C03': ('Recorded results and integral marks of real fixed-point programs (lists of mixed integrality) validated by TLC (SecFxp.FlagOK/BoundOK)',
            'One-sided: integral=True with a non-whole value, or a later product outside its bound, is a violation; scalar operators and all list operations on mixed lists.', 'Bounded inputs.', 'DESIGN.md C03'),
    'C04': ('Recorded secure field operations of real worlds (incl. lifted fields) validated by TLC against Fields.tla (SecFldTrace)',
            'All element pairs of GF(2),GF(3),GF(5),GF(7),GF(4),GF(8),GF(9) (sampled GF(251)) through + - * / ** == is_zero if_else, bitwise ops, to_bits/from_bits on m in {1,3,5,..} incl. m >= q; results in the requested field type.',
            'Orders <= 251.', 'DESIGN.md C04'),
    'C06': ('Recorded conversions on real worlds validated by TLC against Convert.tla',
            'All pairs among 7 secure types, signed and unsigned field worlds, PRSS on/off: value preserved; fixed->int neighbouring integer; canonical representative for fields.', 'Values fit target and min bit length.', 'DESIGN.md C06'),
    'C20': ('TLC complete state graph of FieldMachine.tla (every element x operator x operand) replayed edge by edge on real finfields in all invocation forms + simulated walks on primes < 2^15',
            'Exhaustive for q <= 27 (12 fields): binary, reflected, in-place, int / polynomial operands, **, shifts, reciprocal, comparison; Laws invariant over every element.', 'q <= 27 exhaustive; larger primes sampled.', 'DESIGN.md C20'),
    'C21': ('Recorded is_sqr/sqrt/inverse sqrt of every element validated by TLC against squares-by-definition (FieldFuncs.tla)',
            'All elements of 12 (thorough 24) fields covering p = 3 mod 4, p = 1 mod 4, q = 1 and 3 mod 4 extension fields, binary fields.', 'q <= 1100.', 'DESIGN.md C21'),
    'C22': ('Recorded to_bytes/from_bytes/pickle/int views validated by TLC against the byte-sequence specification (SerFuncs.tla)',
            'Every element (one-element lists), empty and random lists, pickling of every element, signed/unsigned views for 8 (thorough 20) fields.', 'q <= 1100 exhaustively.', 'DESIGN.md C22'),
    'C23': ('TLC ring-law check of Poly.tla + all polynomial pairs of bounded degree through the real gfpx operators (both representations for p=2) validated by TLC (PolyTrace)',
            'Exhaustive pairs: p=2 deg<=3 (both representations), p=3 deg<=2, p=5,7 deg<=1 (thorough larger); divmod/gcdext/invert/powmod by defining relations.', 'Bounded degree.', 'DESIGN.md C23'),
    'C24': ('All polynomials of bounded degree through is_irreducible / next_irreducible / find_irreducible / GF() validated by TLC against irreducibility by definition (Poly.tla)',
            'p in {2,3,5,7}: degree <= 5/3/2/2 (thorough 8/4/3/2), both representations for p=2.', 'Bounded degree.', 'DESIGN.md C24'),
    'C25': ('Recorded results of the pure-Python gmpy2 stand-ins validated by TLC against NumTheory.tla definitions',
            'All pairs |x|,|y| <= 25 (thorough 60) + random pairs, unary arguments up to 2^15, prime powers up to 2^30, rational reconstruction as a relation.', 'Integers < 2^31.', 'DESIGN.md C25'),
    'C29': ('TLC 0-1 principle on the generated Batcher schedule (SortMC) + comparator sequence of the real _sort and secure sort/selection results validated by TLC (SortTrace)',
            '0-1 vectors n <= 10 (thorough 14) in the model; real comparator sequence equals the model for n <= 32 (64); all 0-1 inputs n <= 6 and {0,1,2}^n n <= 4 through sorted/sort/min/max/min_max/argmin/argmax with keys and list elements on m in {1,3,..}.', '0-1 principle.', 'DESIGN.md C29'),
    'C30': ('Recorded results of bit-level building blocks on real worlds validated by TLC against Bits.tla',
            'All bit vectors of bounded length / all 4-bit values through add_bits, to_bits, from_bits, find (all variants), unit_vector, trailing_zeros, gcp2.', 'Bounded lengths.', 'DESIGN.md C30'),
    'C31': ('TLC complete state graph of SecList.tla (Python list semantics) replayed edge by edge on real seclists with public/secret/unit-vector indices + simulated histories',
            'All lists of length <= 3 over {0,1,2} x all operations (about 1 800 distinct edges, 3 index forms) on a one-party world, samples on m = 3; operation histories of length 8 on one object.', 'MaxLen 3.', 'DESIGN.md C31'),
    'C32': ('TLC check of the transcribed reduce/accumulate networks over the free monoid (Reduce.tla) + real functions with depth tracking validated by TLC (ReduceTrace)',
            'n <= 33 (thorough 130) in the model; real functions n = 0..40 (140), with/without initial, both methods: results and depths equal the transcription.', 'Free monoid argument.', 'DESIGN.md C32'),
    'C34': ('Recorded secure statistics on real worlds validated by TLC against Stats.tla (integers by definition; fixed point by enclosure)',
            'Data sets of size <= 4 over -3..3 (sampled quick / all thorough), all functions, several pivot seeds; Python statistics cross-checked against the same definitions.', 'Fixed-point tolerances stated per function.', 'DESIGN.md C34'),
    'C05': ('Recorded secure floating-point results of real party worlds validated by TLC against SecFlt.tla (relative bounds in exact integer arithmetic)',
            'All pairs from a grid of representable inputs (zero included) of SecFlt(s=8,e=5) (thorough also s=10): input/output within 2u|x|, + - within 16u max(|x|,|y|), * / within 16u of the exact result, comparisons exact beyond that margin, on m in {1,3} (thorough more), receivers all and a proper subset.',
            'Standard precisions (24/53-bit significands) exceed TLC integers and are not claimed.', 'DESIGN.md C05'),
    'C17': ('Recorded calls of the real thresha.PRF validated by TLC against Prf.tla (everything around SHAKE-128, which is an uninterpreted function whose digest the harness supplies)',
            'Random keys and inputs, bounds that are / are not powers of two, n in {None,0,1,2,5}, array shapes in the NumPy venv: bytes per value, little-endian decoding, reduction modulo the bound, counts, scalar form, bound 1; each call repeated (determinism) and compared with the list form; TLC recomputes every output from the digest.',
            'Bounds < 2^22 so that TLC can redo the arithmetic.', 'DESIGN.md C17'),
    'C26': ('Recorded find_prime_root results and secure-type field primes validated by TLC against Config.tla (PrimeRootOK, NumFieldOK; overflow-free modular arithmetic)',
            'Every l in 2..26 (thorough 29) x blum x n in {1,2,3,5,7,11,13}: prime of the right length, p = 3 mod 4 when requested, w of multiplicative order n; SecInt/SecFxp field primes of real worlds (m in 1..7, k in {1,2,4,8}) exceed 2^(l+f+k+1) and m.',
            'Default-size types (64-bit primes) exceed TLC integers and are not claimed.', 'DESIGN.md C26'),
    'C33': ('TLC model check of RandomMC over RandomAlg.tla (exact uniformity of the rejection-sampling transcription for every bit supply) + scripted-bit runs of the real code validated against the transcription + range/shape validation on real worlds',
            'For every n <= 9 (thorough 12) and every supply of bits the outcome is in range and every outcome has the same number of supplies; the real _randbelow / random_unit_vector return the transcription\'s result and consume the same number of bits for every scripted supply; all public functions of mpyc.random have the documented range and shape on m in {1,3,4,5}.',
            'Uniformity given uniform secret bits.', 'DESIGN.md C33'),
    'C39': ('Recorded SecFld / setup() calls of real worlds and fresh interpreter processes validated by TLC against Config.tla',
            'All SecFld argument combinations with order <= 32 (thorough 64), chars 2..9, degrees 1..3, min_order <= 100 on worlds (m,t) up to (7,3): accepted exactly when some GF(p^d) satisfies every constraint, result satisfies all; lifting rule for q <= m; setup() accepts -M m -T t iff 2t < m for all m <= 7, t <= 4.',
            'Small orders.', 'DESIGN.md C39'),
    'C27': ('Recorded group operations of every family and coordinate system of mpyc.fingroups validated by TLC against Groups.tla (permutation composition; exponent arithmetic in the cyclic group of the built-in generator; residues; group laws by normal form)',
            'S_2..S_4 all pairs (S_5 sampled); small QR / Schnorr groups on residues; Ed25519, Ed448, secp256k1, BN256, BN256_twist in affine / projective / extended / jacobian coordinates, hyperelliptic curves of genus 1..3 and kummer1271, class groups, large QR / Schnorr groups: all exponent pairs |e| <= 8 (thorough 24) around g and around a random power of g for @, doubling, ~, ^n, ==, g^order = 1, coordinate conversion, membership of every result; group laws on random elements; decode(encode(m)) = m.',
            'Exponent window around the generator; encode only for prime fields and messages that fit.', 'DESIGN.md C27'),
    'C28': ('Opened results of the real secure groups on simulated party worlds validated by TLC against Groups.tla (same specification as C27)',
            'S_3..S_5 (thorough S_2..S_7), QR, Schnorr, Edwards / Weierstrass curves in every oblivious coordinate system, kummer1271, hyperelliptic curves in Mumford representation (NumPy venv), class groups: @ in all secure/plain operand combinations and aliases, ~, ==, !=, if_else, repeat with public / secret exponents and public / secret bases, repeat_public, decode, elements by conversion and by input from varying senders, on m in {1,3,4} (thorough up to 5, PRSS on/off); all parties open the same element.',
            'Exponents |e| <= 5; cases that are known never to complete are run once in a world of their own.', 'DESIGN.md C28'),
    'C38': ('Opened results of real secure polynomials (mpyc.secpols, NumPy venv) on simulated party worlds validated by TLC against Poly.tla / PolyTrace.tla (same specification as C23)',
            'Primes 3..31 (thorough ..101), degrees <= 2 (thorough 3), shares padded with 0..2 leading zero coefficients, created by conversion and by mpc.input, m in {1,3,4}: + - * neg, all six comparisons, divmod // %, gcd, gcdext, invert, powmod (negative exponents too), **, << >>, evaluation at public / secret points, degree, monic, reverse, truncate, [], copy, if_else, is_irreducible; LenPublicOK: result share lengths depend on operand lengths and public arguments only.',
            'Operations that use the secret degree need shares shorter than p (documented assumption): full operator set for 2(deg+1+pad)-1 < p, ring operations for tiny primes.', 'DESIGN.md C38'),
    'C37': ('Opened results of real secure NumPy arrays (NumPy venv) on simulated party worlds, plain NumPy results and elementwise secure-scalar results, all validated by TLC against Arrays.tla / ArraysTrace.tla (NumPy semantics from first principles)',
            'Secure integer, fixed-point and prime-field arrays of up to 3 dimensions and 14 elements, every broadcast-compatible shape pair, created by conversion and by mpc.input: + - * / ** << neg abs sgn, six comparisons, minimum/maximum, matmul (1-D/2-D combinations), outer, sum prod all any amin amax argmin argmax cumsum along every axis, sort flip roll, reshape flatten transpose swapaxes expand_dims squeeze, concatenate stack vstack hstack append, indexing and slicing, where, copy, input/output; m in {1,3,4} (thorough 5), PRSS on/off. Array sharing / recombination / PRSS against the list versions: C11, C12, C15, C17 run both variants.',
            'Small shapes and entries; fixed-point products within 2n+1 units; prime fields only.', 'DESIGN.md C37'),
    'C18': ('TLC model check of MaskingMC over Masking.tla (exact statistical distance of the views of every pair of secrets over the whole mask space) + openings, random-bit counts and random bounds recorded inside the real protocols validated by TLC against MaskTrace.tla',
            'Model: trunc, sgn (with the public zero test of its comparison), lsb, _mod, to_bits, is_zero_public for L <= 4, K <= 4, slack D in {1,2}: SD <= D/2^K for all pairs of secrets. Code: on worlds m in {1,3} (thorough ..5, PRSS on/off), SecInt(6), SecInt(8), SecFxp(10,4), k = 8: the mask parameters the code requests equal the specification\'s (ParamOK), the opened value is secret + offset + mask in the mask interval (ViewOK), and a second world with the same random tape and another secret opens the same mask (IndepOK).',
            'First opening of each protocol is bound to the code; later openings by the model only; shares received: C14; uniformity of bounded randoms: C15/C17.', 'DESIGN.md C18'),
}
NA_REASON = 'check not built yet in this session (planned, see DESIGN.md section 3); not claimed'


def main():
    checks = []
    for pid in ALL:
        if pid not in CHECKS:
            continue
        tech, text, note, ref = CHECKS[pid]
        checks.append({
            'property_id': pid,
            'quick_cmd': f'./vcheck {pid} --tier quick',
            'thorough_cmd': f'./vcheck {pid} --tier thorough',
            'evidence_file': f'evidence/{pid}.json',
            'replay_cmd_template': './vcheck --replay {path}',
            'engine': 'tlc+harness',
            'level_claimed': {'category': 'fault_enumeration' if pid == 'C36' else 'model_checking', 'text': text, 'design_ref': ref},
            'level_note': note,
            'technique': tech,
        })
    man = {
        'version': 1,
        'setup_cmd': './setup.sh',
        'hooks': {
            'guard': 'MPYC_VERIF',
            'enable': 'no source patch: with MPYC_VERIF=1 the harness installs call-through wrappers around public '
                      'call boundaries of mpyc (imported from /repo working tree via VERIF_REPO, default /repo)',
            'baseline_off_cmd': 'cd /repo && /venv/bin/python -m pytest -ra -q -p no:cacheprovider --timeout=900 '
                                '--continue-on-collection-errors',
            'source_commits': [],
            'add_only': True,
        },
        'engines': [
            {'name': 'tlc+harness', 'path': 'vcheck', 'serves_properties': sorted(CHECKS),
             'kind_free_text': 'TLA+ specifications in spec/ checked by TLC; Python harness (harness/) replays TLC '
                               'behaviours into the real code and validates recorded traces of the real code with TLC'}],
        'checks': checks,
        'notes': 'See DESIGN.md. Known findings: known_findings.json. Seeded changes: seeded/.',
        'not_applicable': [{'property_id': p, 'reason': NA.get(p, NA_REASON)} for p in ALL if p not in CHECKS],
    }
    with open(os.path.join(ROOT, 'MANIFEST.json'), 'w') as f:
        json.dump(man, f, indent=1)
    print('claimed', len(checks), 'not_applicable', len(man['not_applicable']))


NA = {}

if __name__ == '__main__':
    main()
