#!/bin/bash
# usage: tools/run_thorough.sh <per-check timeout s> <parallelism> ids...
# development helper: finds thorough tiers that fail or take too long (logs in out/logs/<id>.thorough.log)
cd "$(dirname "$0")/.."
TO=$1; PAR=$2; shift 2
mkdir -p out/logs
echo $* | tr ' ' '\n' | xargs -P $PAR -I{} sh -c "S=\$(date +%s); timeout $TO ./vcheck {} --tier thorough > out/logs/{}.thorough.log 2>&1; echo {} exit=\$? \$(( \$(date +%s) - S ))s \$(tail -1 out/logs/{}.thorough.log | cut -c1-120)"
