#!/bin/bash
# usage: tools/seed_eval.sh <Cxx> [more checks...]  -- confirm a seeded change produced in /tmp/seed/<Cxx>/_out and run our checks on it
set -u
ID=$1; shift
W=/tmp/seed/$ID
OUT=$W/_out
cd $W || exit 2
git checkout -q -- . ; git apply _out/patch.diff || { echo "AGENT PATCH DOES NOT APPLY"; exit 3; }
echo "== tests with change"; TESTS=$(/venv/bin/python -m pytest -q -p no:cacheprovider --timeout=900 2>&1 | tail -1); echo "$TESTS"
echo "== demo with change"; timeout 300 ${DEMO_PY:-/venv/bin/python} _out/demo.py >/tmp/seed/$ID.demo_with.log 2>&1; DW=$?; echo "exit=$DW"
git apply -R _out/patch.diff
echo "== demo without change"; timeout 300 ${DEMO_PY:-/venv/bin/python} _out/demo.py >/tmp/seed/$ID.demo_without.log 2>&1; DWO=$?; echo "exit=$DWO"
git apply _out/patch.diff
cd /verif
mkdir -p seeded/$ID
cp $OUT/patch.diff seeded/$ID/patch.diff
cp $OUT/demo.py seeded/$ID/demo.py 2>/dev/null
cp $OUT/notes.md seeded/$ID/notes.md 2>/dev/null
for f in $OUT/*.py; do cp $f seeded/$ID/ 2>/dev/null; done
RES=""
echo "== our checks on the change"
# our checks run against the scratch worktree (which has the change applied); evidence of these runs goes to a scratch directory
mkdir -p /tmp/seed/evidence_$ID
CHK=${ID%[a-z]}
for C in $CHK "$@"; do
  VERIF_REPO=$W VERIF_EVIDENCE_DIR=/tmp/seed/evidence_$ID ./vcheck $C > /tmp/seed/$ID.$C.vcheck.log 2>&1; RC=$?; echo "vcheck $C exit=$RC $(grep -c VIOLATION /tmp/seed/$ID.$C.vcheck.log) violation lines"; grep "key=" /tmp/seed/$ID.$C.vcheck.log | cut -c1-200 | head -4
  KEYS=$(grep "key=" /tmp/seed/$ID.$C.vcheck.log | sed 's/.*key=\([^ ]*\) .*/\1/' | sort -u | head -8 | tr '\n' ' ')
  RES="$RES$C:exit=$RC:$KEYS;"
done
rm -rf /tmp/seed/evidence_$ID
python3 - "$ID" "$TESTS" "$DW" "$DWO" "$RES" <<'PY'
import json, sys, os
pid, tests, dw, dwo, res = sys.argv[1:6]
d = '/verif/seeded/' + pid
notes = open(d + '/notes.md').read() if os.path.exists(d + '/notes.md') else ''
meta = {'property': pid.rstrip('abcdefgh'), 'seed_id': pid, 'origin': 'independent sub-agent given only the property text and a scratch worktree',
        'needs_to_manifest': 'see notes.md', 'confirmed': {
            'existing_test_suite_with_change': tests, 'demo_exit_with_change': int(dw), 'demo_exit_without_change': int(dwo)},
        'our_checks_on_change': [r for r in res.split(';') if r],
        'what_was_run': ['cd <scratch worktree with change> && /venv/bin/python -m pytest -q -p no:cacheprovider --timeout=900',
                         '/venv/bin/python _out/demo.py (with change, then after git stash)',
                         'VERIF_REPO=<scratch worktree with the change> ./vcheck <id> (quick tier); equivalent to git -C /repo apply patch.diff; ./vcheck <id>; git -C /repo checkout -- .']}
json.dump(meta, open(d + '/meta.json', 'w'), indent=1)
print('meta written', meta['our_checks_on_change'])
PY
