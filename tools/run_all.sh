#!/bin/bash
# usage: tools/run_all.sh [quick|thorough] [parallelism] [ids...]  -- run every check of MANIFEST.json, summary on stdout, logs in out/logs
cd "$(dirname "$0")/.."
TIER=${1:-quick}; PAR=${2:-4}; shift 2 2>/dev/null
mkdir -p out/logs
IDS=${*:-$(python3 -c "import json; print(' '.join(c['property_id'] for c in json.load(open('MANIFEST.json'))['checks']))")}
echo $IDS | tr ' ' '\n' | xargs -P $PAR -I{} sh -c "./vcheck {} --tier $TIER > out/logs/{}.$TIER.log 2>&1; echo {} exit=\$? \$(tail -1 out/logs/{}.$TIER.log | cut -c1-140)"
