#!/bin/bash
# usage: tools/run_seeds.sh "<seeds>" [parallelism] [ids...] -- quick tier under other seeds; evidence of these runs goes to a scratch directory
cd "$(dirname "$0")/.."
SEEDS=${1:-"1 2"}; PAR=${2:-3}; shift 2 2>/dev/null
mkdir -p out/logs
IDS=${*:-$(python3 -c "import json; print(' '.join(c['property_id'] for c in json.load(open('MANIFEST.json'))['checks']))")}
for S in $SEEDS; do
  E=$(mktemp -d /tmp/verif_ev_XXXX)
  echo $IDS | tr ' ' '\n' | xargs -P $PAR -I{} sh -c "VERIF_SEED=$S VERIF_EVIDENCE_DIR=$E ./vcheck {} > out/logs/{}.seed$S.log 2>&1; echo seed=$S {} exit=\$? \$(tail -1 out/logs/{}.seed$S.log | cut -c1-120)"
  rm -rf $E
done
