---------------------------- MODULE ShamirTrace ----------------------------
(* Validates calls of the real thresha.random_split / recombine (and their NumPy variants) recorded *)
(* with scripted dealer randomness: every recorded result must be the value Shamir.tla defines.     *)
EXTENDS Shamir, Json, IOUtils
Calls == JsonDeserialize(IOEnv.TRACE_FILE)
VARIABLE k
TInit == k \in 1..Len(Calls)
TNext == UNCHANGED k
TSpec == TInit /\ [][TNext]_k
Pts(e, h) == {<<e.pts[n][1], e.pts[n][2][h]>> : n \in 1..Len(e.pts)}
SplitOK == LET e == Calls[k] IN e.kind = "split" =>
              \A h \in 1..Len(e.s) : \A i \in 1..e.m : e.shares[i][h] = Split(e.s[h], e.c[h], e.m)[i]
\* C13/C14 call pattern: exactly t draws per secret, each uniform over the whole field
PatternOK == LET e == Calls[k] IN e.kind = "split" =>
              /\ Len(e.bounds) = NT * Len(e.s)
              /\ \A n \in 1..Len(e.bounds) : e.bounds[n] = Q
RecombineOK == LET e == Calls[k] IN e.kind = "recombine" =>
              \A r \in 1..Len(e.xr) : \A h \in 1..Len(e.val[r]) : e.val[r][h] = Lagrange(Pts(e, h), e.xr[r])
=============================================================================
