---------------------------- MODULE RandomTrace ----------------------------
(* Validates the real mpyc.random functions: with scripted random bits the result of _randbelow /              *)
(* random_unit_vector must be the transcription's result on the same bits; with real randomness every result    *)
(* must have the documented shape and range.                                                                    *)
EXTENDS RandomAlg, Json, IOUtils
Evs == JsonDeserialize(IOEnv.TRACE_FILE)
VARIABLE k
TInit == k \in 1..Len(Evs)
TNext == UNCHANGED k
TSpec == TInit /\ [][TNext]_k
E == Evs[k]
Set(s) == {s[i] : i \in 1..Len(s)}
NoRep(s) == Cardinality(Set(s)) = Len(s)
ScriptOK ==
  /\ (E.fn = "randbelow" => LET r == RandBelow(E.n, E.supply) IN
         IF r[1] = -1 THEN E.res = <<-1>> ELSE E.res = <<r[1]>> /\ E.used = r[2])
  /\ (E.fn = "unit_vector" => LET r == UnitVector(E.n, E.supply) IN
         IF r[1] = <<>> THEN E.res = <<-1>> ELSE E.res = r[1] /\ E.used = r[2])
ShapeOK ==
  CASE E.fn = "randrange" -> E.res[1] \in {E.a + E.c * j : j \in 0..((E.b - E.a - 1) \div E.c)}    \* start a, stop b, step c > 0
    [] E.fn = "randint" -> E.res[1] >= E.a /\ E.res[1] <= E.b
    [] E.fn = "getrandbits" -> E.res[1] >= 0 /\ E.res[1] < 2 ^ E.n
    [] E.fn = "choice" -> E.res[1] \in Set(E.pop)
    [] E.fn = "choices" -> Len(E.res) = E.n /\ Set(E.res) \subseteq Set(E.pop)
    [] E.fn = "sample" -> Len(E.res) = E.n /\ NoRep(E.res) /\ Set(E.res) \subseteq Set(E.pop)
    [] E.fn \in {"shuffle", "random_permutation"} -> Len(E.res) = Len(E.pop) /\ Set(E.res) = Set(E.pop) /\ NoRep(E.res)
    [] E.fn = "random_derangement" -> /\ Len(E.res) = Len(E.pop) /\ Set(E.res) = Set(E.pop) /\ NoRep(E.res)
                                      /\ \A i \in 1..Len(E.pop) : E.res[i] # E.pop[i]
    [] E.fn = "random_unit_vector" -> Len(E.res) = E.n /\ IsUnit(E.res)
    [] E.fn = "random" -> E.res[1] >= 0 /\ E.res[1] < 2 ^ E.n                 \* scaled by 2^f, n = f
    [] E.fn = "uniform" -> E.res[1] >= (IF E.a <= E.b THEN E.a ELSE E.b) /\ E.res[1] <= (IF E.a <= E.b THEN E.b ELSE E.a)
    [] OTHER -> TRUE
============================================================================
