---------------------------- MODULE SecFldTrace ----------------------------
(* C04: results of secure finite-field operations opened on real party worlds must be the field results *)
(* of Fields.tla over the *requested* field GF(P^D) (also when the shares live in a lifted extension).    *)
EXTENDS Fields, TLC, Json, IOUtils
Evs == JsonDeserialize(IOEnv.TRACE_FILE)
VARIABLE k
TInit == k \in 1..Len(Evs)
TNext == UNCHANGED k
TSpec == TInit /\ [][TNext]_k
E == Evs[k]
Bit(a, i) == (a \div (2 ^ i)) % 2
RECURSIVE BitsOp(_, _, _, _)
BitsOp(op, a, b, i) ==       \* bitwise operation on the integer representations, bits i..
  IF 2 ^ i >= Q THEN 0
  ELSE (CASE op = "and" -> Bit(a, i) * Bit(b, i)
          [] op = "or"  -> (Bit(a, i) + Bit(b, i) + Bit(a, i) * Bit(b, i)) % 2
          [] op = "xor" -> (Bit(a, i) + Bit(b, i)) % 2
          [] op = "not" -> 1 - Bit(a, i)) * (2 ^ i) + BitsOp(op, a, b, i + 1)
Spec1(e) ==
  CASE e.op = "add" -> <<Add(e.a, e.b)>>
    [] e.op = "sub" -> <<Sub(e.a, e.b)>>
    [] e.op = "mul" -> <<Mul(e.a, e.b)>>
    [] e.op = "div" -> <<Div(e.a, e.b)>>                 \* b # 0
    [] e.op = "rec" -> <<Inv(e.a)>>                      \* a # 0
    [] e.op = "neg" -> <<Neg(e.a)>>
    [] e.op = "pow" -> <<Pow(e.a, e.n)>>                 \* public exponent n >= 0
    [] e.op = "npow" -> <<Pow(Inv(e.a), e.n)>>           \* a ** -n
    [] e.op = "eq" -> <<IF e.a = e.b THEN 1 ELSE 0>>
    [] e.op = "iszero" -> <<IF e.a = 0 THEN 1 ELSE 0>>
    [] e.op = "ifelse" -> <<IF e.n # 0 THEN e.a ELSE e.b>>
    [] e.op = "sum3" -> <<Add(Add(e.a, e.b), e.a)>>
    [] e.op \in {"and", "or", "xor"} -> <<BitsOp(e.op, e.a, e.b, 0)>>      \* characteristic 2
    [] e.op = "not" -> <<BitsOp("not", e.a, 0, 0)>>
    [] e.op = "tobits" -> [i \in 1..e.n |-> Bit(e.a, i - 1)]              \* n = number of bits requested
    [] e.op = "frombits" -> <<e.a>>
\* every party's opened result is the specified one and is an element of the requested field type
FldOK == \A p \in 1..Len(E.res) : E.res[p] = Spec1(E)
InRequestedField == E.inbase
============================================================================
