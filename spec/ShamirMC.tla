---------------------------- MODULE ShamirMC ----------------------------
(* Design check of Shamir.tla: one state per (secret, coefficient tuple), spread over TLC's workers. *)
EXTENDS Shamir
M1 == <<0>>
M4 == <<1, 1>>      \* GF(2^2): X^2 + X + 1
M8 == <<1, 1, 0>>   \* GF(2^3): X^3 + X + 1
M9 == <<1, 0>>      \* GF(3^2): X^2 + 1
VARIABLE case
Init == case \in [s : Elems, c : Coefs(NT)]
Next == UNCHANGED case
Spec == Init /\ [][Next]_case
\* C12: every subset of at least t+1 shares recombines to s at 0 and to f(x) at every x
Recombines ==
  LET sh == Split(case.s, case.c, NM) IN
  \A S \in SUBSET (1..NM) : Cardinality(S) >= NT + 1 =>
     /\ Lagrange({<<OfInt(i), sh[i]>> : i \in S}, 0) = case.s
     /\ \A x \in Elems : Lagrange({<<OfInt(i), sh[i]>> : i \in S}, x) = Eval(case.s, case.c, x)
\* C13: for every coalition of at most t parties, every view is produced by exactly Q^(t-|C|) coefficient
\* tuples, whatever the secret: the view is uniform and independent of the secret (evaluated once per secret)
ViewUniform ==
  (NT >= 1 /\ case.c = [k \in 1..NT |-> 0]) =>
  \A C \in SUBSET (1..NM) : (Cardinality(C) <= NT /\ C # {}) =>
     \A v \in [C -> Elems] :
        Cardinality({c \in Coefs(NT) : \A i \in C : Split(case.s, c, NM)[i] = v[i]}) = Q ^ (NT - Cardinality(C))
\* degree: the NM shares lie on a polynomial of degree <= NT (any NT+1 shares determine all others)
DegreeT == LET sh == Split(case.s, case.c, NM) IN
           \A j \in 1..NM : Lagrange({<<OfInt(i), sh[i]>> : i \in 1..(NT + 1)}, OfInt(j)) = sh[j]
ASSUME FieldAxiomsOn(Elems)
\* negative control: subsets of only t shares do NOT determine the secret (must be violated for t >= 1)
TooFewRecombine ==
  LET sh == Split(case.s, case.c, NM) IN
  \A S \in SUBSET (1..NM) : Cardinality(S) = NT => Lagrange({<<OfInt(i), sh[i]>> : i \in S}, 0) = case.s
==========================================================================
