---------------------------- MODULE SerFuncs ----------------------------
(* C22: byte encoding, pickling and integer views of field elements of GF(P^D) (elements are their     *)
(* integer representations 0..Q-1); independent of the field arithmetic.                               *)
EXTENDS Integers, Sequences, TLC, Json, IOUtils
CONSTANTS P, D
Q == P ^ D
Evs == JsonDeserialize(IOEnv.TRACE_FILE)
VARIABLE k
TInit == k \in 1..Len(Evs)
TNext == UNCHANGED k
TSpec == TInit /\ [][TNext]_k
E == Evs[k]
\* ---- C22 ----
RECURSIVE LE(_, _)
LE(v, w) == IF w = 0 THEN <<>> ELSE <<v % 256>> \o LE(v \div 256, w - 1)
RECURSIVE Encode(_, _)
Encode(vals, w) == IF vals = <<>> THEN <<>> ELSE LE(Head(vals), w) \o Encode(Tail(vals), w)
BytesOK == E.fn = "bytes" => /\ 256 ^ E.width >= Q            \* lossless fixed width
                             /\ E.bytes = Encode(E.vals, E.width)
                             /\ E.dec = E.vals
PickleOK == E.fn = "pickle" => (E.b = E.a /\ E.same_type)
IntOK == E.fn = "int" =>
           /\ (E.signed /\ D = 1) => (E.i = (IF E.a > (P \div 2) THEN E.a - P ELSE E.a) /\ 2 * E.i <= P /\ 2 * E.i >= -P)
           /\ (~E.signed \/ D > 1) => E.i = E.a
           /\ (D = 1 => (E.sgn - E.a) % P = 0 /\ E.uns = E.a)
=========================================================================
