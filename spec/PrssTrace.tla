---------------------------- MODULE PrssTrace ----------------------------
(* Validates real thresha.pseudorandom_share / pseudorandom_share_zero calls made with stub PRFs.   *)
EXTENDS Prss, Json, IOUtils
Calls == JsonDeserialize(IOEnv.TRACE_FILE)
VARIABLE k
TInit == k \in 1..Len(Calls)
TNext == UNCHANGED k
TSpec == TInit /\ [][TNext]_k
\* e.r : sequence over subsets (in enumeration order e.subsets, each a sequence of parties) of PRF values
Rmap(e, h) == [S \in Subsets |-> LET n == CHOOSE n \in 1..Len(e.subsets) : {e.subsets[n][q] : q \in 1..Len(e.subsets[n])} = S
                                 IN e.r[n][h]]
ZRmap(e, h) == [S \in Subsets |-> LET n == CHOOSE n \in 1..Len(e.subsets) : {e.subsets[n][q] : q \in 1..Len(e.subsets[n])} = S
                                  IN [j \in 1..NT |-> e.r[n][(h - 1) * NT + j]]]
ShareOK == LET e == Calls[k] IN e.kind = "share" =>
             \A h \in 1..e.n : \A i \in Party : e.shares[i + 1][h] = Share(i, Rmap(e, h))
ZeroOK == LET e == Calls[k] IN e.kind = "zero" =>
             \A h \in 1..e.n : \A i \in Party : e.shares[i + 1][h] = ZeroShare(i, ZRmap(e, h))
\* and the recorded shares themselves interpolate as stated (independent of Share/ZeroShare)
ShareInterp == LET e == Calls[k] IN e.kind = "share" =>
             \A h \in 1..e.n : OnPoly([i \in Party |-> e.shares[i + 1][h]], NT, Secret(Rmap(e, h)))
ZeroInterp == LET e == Calls[k] IN (e.kind = "zero" /\ NT >= 1) =>
             \A h \in 1..e.n : OnPoly([i \in Party |-> e.shares[i + 1][h]], 2 * NT, 0)
===========================================================================
