---------------------------- MODULE RandomMC ----------------------------
(* Design check of RandomAlg: for every n <= NMAX and every supply of L random bits, the outcomes of           *)
(* RandBelow(n) and of random_unit_vector(n) are in range, and every outcome is produced by the SAME number of  *)
(* supplies: given uniform bits the result is exactly uniform on the runs that finish (rejected prefixes are     *)
(* public by design).  Fisher-Yates: the choice tuples and the permutations are in bijection.                    *)
EXTENDS RandomAlg
CONSTANTS NMAX, L, SMAX
VARIABLE n
Init == n \in 1..NMAX
Next == UNCHANGED n
Spec == Init /\ [][Next]_n
CountRB(v) == Cardinality({s \in Bits(L) : RandBelow(n, s)[1] = v})
CountUV(v) == Cardinality({s \in Bits(L) : PosOfOne(UnitVector(n, s)[1]) = v})
RandBelowUniform == /\ \A s \in Bits(L) : RandBelow(n, s)[1] \in -1..(n - 1)
                    /\ \A v \in 0..(n - 1) : CountRB(v) = CountRB(0) /\ CountRB(v) > 0
UnitVectorUniform == /\ \A s \in Bits(L) : LET u == UnitVector(n, s)[1] IN u = <<>> \/ (Len(u) = n /\ IsUnit(u))
                     /\ \A v \in 0..(n - 1) : CountUV(v) = CountUV(0) /\ CountUV(v) > 0
Choices(m) == {js \in [1..(m - 1) -> 0..(m - 1)] : \A i \in 1..(m - 1) : js[i] <= m - i}
ShuffleBijective == n <= SMAX =>
     Cardinality({Shuffle([q \in 1..n |-> q], js, 1) : js \in Choices(n)}) = Cardinality(Choices(n))
=========================================================================
