---------------------------- MODULE Prss ----------------------------
(* Pseudorandom secret sharing (thresha.py:136-198).  For every subset S of m-t parties there is a   *)
(* PRF output r_S known to the members of S; f_S is the degree-t polynomial with f_S(0) = 1 and      *)
(* f_S(j+1) = 0 for j outside S.  Party i's share is the sum over the subsets containing i of        *)
(* r_S * f_S(i+1); a zero-share uses t values per subset as coefficients of X..X^t times f_S.         *)
EXTENDS Shamir
Party == 0..(NM - 1)
RECURSIVE Combs(_, _)
Combs(lo, n) == IF n = 0 THEN {{}} ELSE UNION {{{x} \cup c : c \in Combs(x + 1, n - 1)} : x \in lo..(NM - 1)}
Subsets == Combs(0, NM - NT)
FS(S, i) == Lagrange({<<0, 1>>} \cup {<<OfInt(j + 1), 0>> : j \in Party \ S}, OfInt(i + 1))
RECURSIVE SumOver(_, _, _)
SumOver(Ss, f(_), acc) == IF Ss = {} THEN acc ELSE LET S == CHOOSE S \in Ss : TRUE IN SumOver(Ss \ {S}, f, Add(acc, f(S)))
\* party i only uses the subsets it belongs to (it has no key for the others)
Share(i, r) == LET f(S) == Mul(r[S], FS(S, i)) IN SumOver({S \in Subsets : i \in S}, f, 0)
RECURSIVE HornerZ(_, _, _, _)
HornerZ(rs, x, y, j) == IF j > Len(rs) THEN y ELSE HornerZ(rs, x, Mul(Add(y, rs[j]), x), j + 1)
ZeroShare(i, r) == LET f(S) == Mul(HornerZ(r[S], OfInt(i + 1), 0, 1), FS(S, i)) IN SumOver({S \in Subsets : i \in S}, f, 0)
Secret(r) == LET f(S) == r[S] IN SumOver(Subsets, f, 0)

OnPoly(sh, deg, secret) ==
  \* the NM values sh[0..NM-1] at points 1..NM lie on a polynomial of degree <= deg with constant term secret
  /\ deg + 1 <= NM
  /\ LET base == {<<OfInt(i + 1), sh[i]>> : i \in 0..deg} IN
     /\ \A j \in Party : Lagrange(base, OfInt(j + 1)) = sh[j]
     /\ Lagrange(base, 0) = secret
=====================================================================
