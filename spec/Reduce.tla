---------------------------- MODULE Reduce ----------------------------
(* mpctools.reduce / accumulate (mpctools.py:19, 45) over the free monoid: items are words (sequences),  *)
(* the associative function is concatenation, so a result equals functools.reduce / itertools.accumulate  *)
(* for EVERY associative function iff it does here.  Values carry the depth of function applications.     *)
(* ReduceT, AccS, AccB transcribe the pairing loop and the Sklansky / Brent-Kung networks.                *)
EXTENDS Integers, Sequences, TLC
CONSTANT NMAX
Max(a, b) == IF a >= b THEN a ELSE b
F(u, v) == [w |-> u.w \o v.w, d |-> Max(u.d, v.d) + 1]
Item(i) == [w |-> <<i>>, d |-> 0]
Items(n) == [i \in 1..n |-> Item(i)]
RECURSIVE CeilLog2(_)
CeilLog2(n) == IF n <= 1 THEN 0 ELSE 1 + CeilLog2((n + 1) \div 2)
\* reduce: while len(x) > 1: x[len(x)%2:] = (f(x[i], x[i+1]) for i in range(len(x)%2, len(x), 2))
RECURSIVE ReduceT(_)
ReduceT(x) == IF Len(x) = 1 THEN x[1]
              ELSE LET o == Len(x) % 2
                       pairs == [j \in 1..((Len(x) - o) \div 2) |-> F(x[o + 2 * j - 1], x[o + 2 * j])]
                   IN ReduceT((IF o = 1 THEN <<x[1]>> ELSE <<>>) \o pairs)
\* accumulate, Sklansky: acc(i, j) on 0-based half-open ranges; x is 1-based here
RECURSIVE AccS(_, _, _)
AccS(x, i, j) == LET h == (i + j) \div 2 IN
                 IF i < h THEN LET x1 == AccS(x, i, h)
                                   a == x1[h]
                                   x2 == AccS(x1, h, j)
                               IN [q \in 1..Len(x) |-> IF q > h /\ q <= j THEN F(a, x2[q]) ELSE x2[q]]
                 ELSE x
\* accumulate, Brent-Kung
RECURSIVE AccB(_, _, _)
AccB(x, i, j) == LET h == (i + j) \div 2 IN
                 IF i < h THEN LET x1 == AccB(x, i, h)
                                   a == x1[h]
                                   x1b == IF i # 0 THEN [x1 EXCEPT ![h] = F(x1[i], a)] ELSE x1
                                   x2 == AccB(x1b, h, j)
                               IN [x2 EXCEPT ![j] = F(a, x2[j])]
                 ELSE x
Word(a, b) == [i \in 1..(b - a + 1) |-> a + i - 1]
MaxDepth(x) == LET S == {x[i].d : i \in 1..Len(x)} IN CHOOSE m \in S : \A y \in S : y <= m
IsPow2(n) == \E kk \in 0..30 : 2 ^ kk = n
---------------------------------------------------------------------
VARIABLE n
Init == n \in 1..NMAX
Next == UNCHANGED n
Spec == Init /\ [][Next]_n
\* design: the tree reduction is the left fold, with logarithmic depth
ReduceRight == LET r == ReduceT(Items(n)) IN r.w = Word(1, n) /\ r.d = CeilLog2(n)
\* both prefix networks yield all prefixes; Sklansky has depth ceil(log2 n); Brent-Kung for n = 2^k has depth
\* max(2k-2, k) as documented, and at most 2 ceil(log2 n) in general
SklanskyRight == LET r == AccS(Items(n), 0, n) IN
                 /\ \A i \in 1..n : r[i].w = Word(1, i)
                 /\ MaxDepth(r) = CeilLog2(n)
BrentKungRight == LET r == AccB(Items(n), 0, n)  kk == CeilLog2(n) IN
                  /\ \A i \in 1..n : r[i].w = Word(1, i)
                  /\ (IsPow2(n) => MaxDepth(r) = Max(2 * kk - 2, kk))
                  /\ MaxDepth(r) <= Max(2 * kk, 1)
=====================================================================
