---------------------------- MODULE Shamir ----------------------------
(* Shamir secret sharing as in thresha.py: random_split evaluates                                  *)
(*   f(X) = s + c[t] X + c[t-1] X^2 + ... + c[1] X^t   (c in the order the coefficients are drawn) *)
(* by Horner at X = 1..m; recombine is Lagrange interpolation at any point x.                      *)
EXTENDS Fields, TLC
CONSTANTS NM, NT    \* number of parties m and threshold t
RECURSIVE EvalG(_, _, _, _)
EvalG(c, x, y, j) == IF j > Len(c) THEN y ELSE EvalG(c, x, Mul(Add(y, c[j]), x), j + 1)
Eval(s, c, x) == Add(EvalG(c, x, 0, 1), s)
Split(s, c, m) == [i \in 1..m |-> Eval(s, c, OfInt(i))]
\* Lagrange interpolation through a set of points <<x, y>> (distinct x) evaluated at x.
\* (index recursion over a sequence: recursion over sets with CHOOSE made TLC overflow its stack)
SortedPts(S) == [k \in 1..Cardinality(S) |-> CHOOSE p \in S : Cardinality({q \in S : q[1] < p[1]}) = k - 1]
RECURSIVE ProdNum(_, _, _, _)
ProdNum(ps, i, x, j) == IF j > Len(ps) THEN 1
                        ELSE IF j = i THEN ProdNum(ps, i, x, j + 1)
                        ELSE Mul(Sub(x, ps[j][1]), ProdNum(ps, i, x, j + 1))
RECURSIVE ProdDen(_, _, _)
ProdDen(ps, i, j) == IF j > Len(ps) THEN 1
                     ELSE IF j = i THEN ProdDen(ps, i, j + 1)
                     ELSE Mul(Sub(ps[i][1], ps[j][1]), ProdDen(ps, i, j + 1))
RECURSIVE LagSeq(_, _, _)
LagSeq(ps, x, i) == IF i > Len(ps) THEN 0
                    ELSE Add(Mul(ps[i][2], Div(ProdNum(ps, i, x, 1), ProdDen(ps, i, 1))), LagSeq(ps, x, i + 1))
Lagrange(pts, x) == LagSeq(SortedPts(pts), x, 1)
Coefs(t) == [1..t -> Elems]

=======================================================================
