---------------------------- MODULE SecInt ----------------------------
(* Abstract semantics of MPyC secure integers: every operation yields exactly what Python integer       *)
(* arithmetic yields on the same L-bit inputs (C01).  IntRes(e) is the specified result of the recorded  *)
(* operation e; the register machine at the end generates compositions (random walks) that are replayed   *)
(* on real party worlds.                                                                                 *)
EXTENDS Integers, Sequences, FiniteSets, TLC
Abs(x) == IF x < 0 THEN -x ELSE x
Sgn(x) == IF x < 0 THEN -1 ELSE IF x > 0 THEN 1 ELSE 0
B(p) == IF p THEN 1 ELSE 0
Min(a, b) == IF a <= b THEN a ELSE b
Max(a, b) == IF a >= b THEN a ELSE b
RECURSIVE Gcd(_, _)
Gcd(a, b) == IF b = 0 THEN Abs(a) ELSE Gcd(b, a % Abs(b))
Lcm(a, b) == IF a = 0 \/ b = 0 THEN 0 ELSE Abs(a * b) \div Gcd(a, b)
RECURSIVE PowI(_, _)
PowI(b, e) == IF e = 0 THEN 1 ELSE b * PowI(b, e - 1)
RECURSIVE SumSeq(_)
SumSeq(s) == IF s = <<>> THEN 0 ELSE Head(s) + SumSeq(Tail(s))
RECURSIVE ProdSeq(_)
ProdSeq(s) == IF s = <<>> THEN 1 ELSE Head(s) * ProdSeq(Tail(s))
RECURSIVE Dot(_, _)
Dot(s, u) == IF s = <<>> THEN 0 ELSE Head(s) * Head(u) + Dot(Tail(s), Tail(u))
RECURSIVE MinSeq(_)
MinSeq(s) == IF Len(s) = 1 THEN s[1] ELSE Min(s[1], MinSeq(Tail(s)))
RECURSIVE MaxSeq(_)
MaxSeq(s) == IF Len(s) = 1 THEN s[1] ELSE Max(s[1], MaxSeq(Tail(s)))
\* specified scalar result of a unary / binary / ternary operation (b public where the API wants it public)
Res(op, a, b, c) ==
  CASE op = "add" -> a + b   [] op = "sub" -> a - b   [] op = "mul" -> a * b   [] op = "neg" -> -a
    [] op = "abs" -> Abs(a)  [] op = "sgn" -> Sgn(a)
    [] op = "lt" -> B(a < b) [] op = "le" -> B(a <= b) [] op = "eq" -> B(a = b)
    [] op = "ne" -> B(a # b) [] op = "ge" -> B(a >= b) [] op = "gt" -> B(a > b)
    [] op = "min" -> Min(a, b) [] op = "max" -> Max(a, b)
    [] op = "ifelse" -> IF c # 0 THEN a ELSE b
    [] op = "floordiv" -> a \div b              \* public divisor b > 0: Python floor division
    [] op = "mod" -> a % b                      \* public modulus b > 0: Python remainder in 0..b-1
    [] op = "lsb" -> a % 2
    [] op = "pow" -> PowI(a, b)                 \* public exponent b >= 0
    [] op = "gcd" -> Gcd(a, b) [] op = "lcm" -> Lcm(a, b)
    [] op = "iszero" -> B(a = 0) [] op = "eqpub" -> B(a = b)
    [] op = "and" -> B(a # 0 /\ b # 0) [] op = "or" -> B(a # 0 \/ b # 0)     \* on bits
    [] op = "mulpub" -> a * b [] op = "addpub" -> a + b [] op = "rsubpub" -> b - a
Pair(op, a, b) == CASE op = "ifswap0" -> <<a, b>> [] op = "ifswap1" -> <<b, a>>
                    [] op = "minmax" -> <<Min(a, b), Max(a, b)>>
\* list operations: xs, ys sequences
ListRes(op, xs, ys) ==
  CASE op = "sum" -> SumSeq(xs) [] op = "prod" -> ProdSeq(xs) [] op = "inprod" -> Dot(xs, ys)
    [] op = "all" -> B(\A i \in 1..Len(xs) : xs[i] # 0) [] op = "any" -> B(\E i \in 1..Len(xs) : xs[i] # 0)
    [] op = "minl" -> MinSeq(xs) [] op = "maxl" -> MaxSeq(xs)

=====================================================================
