---------------------------- MODULE PolyTrace ----------------------------
(* Validates recorded results of mpyc.gfpx operations (both representations for P = 2) -- C23 -- and  *)
(* of the irreducibility test / search and GF(modulus) acceptance -- C24 -- against Poly.tla.         *)
EXTENDS Poly, TLC, Json, IOUtils
Evs == JsonDeserialize(IOEnv.TRACE_FILE)
VARIABLE k
TInit == k \in 1..Len(Evs)
TNext == UNCHANGED k
TSpec == TInit /\ [][TNext]_k
E == Evs[k]
\* ---- C23 ----
RingOK == CASE E.fn = "add" -> E.r1 = PAdd(E.a, E.b)
            [] E.fn = "sub" -> E.r1 = PSub(E.a, E.b)
            [] E.fn = "mul" -> E.r1 = PMul(E.a, E.b)
            [] E.fn = "neg" -> E.r1 = PNeg(E.a)
            [] E.fn = "lt"  -> (E.r1 = 1) <=> (E.a < E.b)
            [] OTHER -> TRUE
DivModOK == E.fn = "divmod" =>
              IF E.b = 0 THEN E.exc = "ZeroDivisionError"
              ELSE /\ E.exc = ""
                   /\ E.a = PAdd(PMul(E.r1, E.b), E.r2) /\ Deg(E.r2) < Deg(E.b)
                   /\ E.r3 = E.r1 /\ E.r4 = E.r2                \* // and % agree with divmod
\* gcd(a,b) = r1; gcdext(a,b) = (r2, r3, r4) = (g, s, t): g = s a + t b is a common divisor, monic (0 if a = b = 0)
\* -- hence divisible by every common divisor -- and gcd returns the same g
GcdOK == E.fn = "gcd" =>
           /\ E.r2 = PAdd(PMul(E.r3, E.a), PMul(E.r4, E.b))
           /\ IF E.a = 0 /\ E.b = 0 THEN E.r2 = 0 ELSE (Monic(E.r2) /\ Divides(E.r2, E.a) /\ Divides(E.r2, E.b))
           /\ E.r1 = E.r2
\* invert(a, b) = r1 with gcdext's g = r2
InvertOK == E.fn = "invert" =>
           IF E.b = 0 THEN E.exc = "ZeroDivisionError"
           ELSE IF E.r2 = 1 THEN (E.exc = "" /\ PMod(PMul(E.a, E.r1), E.b) = PMod(1, E.b) /\ Deg(E.r1) < (IF Deg(E.b) > 1 THEN Deg(E.b) ELSE 1))
           ELSE E.exc = "ZeroDivisionError"
\* powmod(a, n, b), n >= 0 : repeated multiplication modulo b; n < 0 (r2 = gcd(a,b) = 1): inverse of that
PowModOK == E.fn = "powmod" =>
           IF E.n >= 0 THEN E.exc = "" /\ E.r1 = PPowMod(E.a, E.n, E.b)
           ELSE IF E.r2 = 1 THEN E.exc = "" /\ PMod(PMul(E.r1, PPowMod(E.a, 0 - E.n, E.b)), E.b) = PMod(1, E.b)
           ELSE E.exc = "ZeroDivisionError"
\* ---- C24 ----
IrrOK == E.fn = "irr" => ((E.r1 = 1) <=> Irreducible(E.a))
NextIrrOK == E.fn = "nextirr" => IsNextMonicIrr(E.a, E.r1)
\* find_irreducible(p, d) = r1: the smallest monic irreducible of degree d
FindIrrOK == E.fn = "findirr" => /\ Deg(E.r1) = E.n /\ Monic(E.r1) /\ Irreducible(E.r1)
                                 /\ \A c \in (P ^ E.n)..(E.r1 - 1) : ~Irreducible(c)
\* GF(modulus) accepts exactly the irreducible polynomials (r1 = 1: accepted)
GFAcceptOK == E.fn = "gfaccept" => ((E.r1 = 1) <=> Irreducible(E.a))
==========================================================================
