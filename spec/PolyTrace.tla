---------------------------- MODULE PolyTrace ----------------------------
(* Validates recorded results of mpyc.gfpx operations (both representations for P = 2) -- C23 -- and  *)
(* of the irreducibility test / search and GF(modulus) acceptance -- C24 -- against Poly.tla.         *)
EXTENDS Poly, TLC, Json, IOUtils, FiniteSets
Evs == JsonDeserialize(IOEnv.TRACE_FILE)
VARIABLE k
TInit == k \in 1..Len(Evs)
TNext == UNCHANGED k
TSpec == TInit /\ [][TNext]_k
E == Evs[k]
\* ---- C23 ----
RingOK == CASE E.fn = "add" -> E.r1 = PAdd(E.a, E.b)
            [] E.fn = "sub" -> E.r1 = PSub(E.a, E.b)
            [] E.fn = "mul" -> E.r1 = PMul(E.a, E.b)
            [] E.fn = "neg" -> E.r1 = PNeg(E.a)
            [] E.fn = "lt"  -> (E.r1 = 1) <=> (E.a < E.b)
            [] OTHER -> TRUE
DivModOK == E.fn = "divmod" =>
              IF E.b = 0 THEN E.exc = "ZeroDivisionError"
              ELSE /\ E.exc = ""
                   /\ E.a = PAdd(PMul(E.r1, E.b), E.r2) /\ Deg(E.r2) < Deg(E.b)
                   /\ E.r3 = E.r1 /\ E.r4 = E.r2                \* // and % agree with divmod
\* gcd(a,b) = r1; gcdext(a,b) = (r2, r3, r4) = (g, s, t): g = s a + t b is a common divisor, monic (0 if a = b = 0)
\* -- hence divisible by every common divisor -- and gcd returns the same g
GcdOK == E.fn = "gcd" =>
           /\ E.r2 = PAdd(PMul(E.r3, E.a), PMul(E.r4, E.b))
           /\ IF E.a = 0 /\ E.b = 0 THEN E.r2 = 0 ELSE (Monic(E.r2) /\ Divides(E.r2, E.a) /\ Divides(E.r2, E.b))
           /\ E.r1 = E.r2
\* invert(a, b) = r1 with gcdext's g = r2
InvertOK == E.fn = "invert" =>
           IF E.b = 0 THEN E.exc = "ZeroDivisionError"
           ELSE IF E.r2 = 1 THEN (E.exc = "" /\ PMod(PMul(E.a, E.r1), E.b) = PMod(1, E.b) /\ Deg(E.r1) < (IF Deg(E.b) > 1 THEN Deg(E.b) ELSE 1))
           ELSE E.exc = "ZeroDivisionError"
\* powmod(a, n, b), n >= 0 : repeated multiplication modulo b; n < 0 (r2 = gcd(a,b) = 1): inverse of that
PowModOK == E.fn = "powmod" =>
           IF E.n >= 0 THEN E.exc = "" /\ E.r1 = PPowMod(E.a, E.n, E.b)
           ELSE IF E.r2 = 1 THEN E.exc = "" /\ PMod(PMul(E.r1, PPowMod(E.a, 0 - E.n, E.b)), E.b) = PMod(1, E.b)
           ELSE E.exc = "ZeroDivisionError"
\* ---- C38: further operators and methods of secure polynomials (mpyc.secpols), opened results ----
Eval(a, x) == LET f(i) == Coef(a, i) * PowP(x, i) IN SumTo(f, DMAX) % P
RevBy(a, d) == LET f(i) == (IF d - i >= 0 THEN Coef(a, d - i) ELSE 0) * (P ^ i) IN SumTo(f, d)
RECURSIVE PPow(_, _)
PPow(a, n) == IF n = 0 THEN 1 ELSE PMul(PPow(a, n - 1), a)
ScalarMulP(c, a) == LET f(i) == ((c * Coef(a, i)) % P) * (P ^ i) IN SumTo(f, DMAX)
SecPolOK == CASE E.fn = "le" -> (E.r1 = 1) <=> (E.a <= E.b)
              [] E.fn = "gt" -> (E.r1 = 1) <=> (E.a > E.b)
              [] E.fn = "ge" -> (E.r1 = 1) <=> (E.a >= E.b)
              [] E.fn = "eq" -> (E.r1 = 1) <=> (E.a = E.b)
              [] E.fn = "ne" -> (E.r1 = 1) <=> (E.a # E.b)
              [] E.fn = "lshift" -> E.r1 = E.a * (P ^ E.n)
              [] E.fn = "rshift" -> E.r1 = E.a \div (P ^ E.n)
              [] E.fn = "eval" -> E.r1 = Eval(E.a, E.n)
              [] E.fn = "degree" -> E.r1 = Deg(E.a) % P
              [] E.fn = "monic" -> E.r1 = (IF E.a = 0 THEN 0 ELSE ScalarMulP(InvP(Lead(E.a)), E.a))
              [] E.fn = "reverse" -> E.r1 = (IF E.n = -2 THEN RevBy(E.a, Deg(E.a)) ELSE RevBy(E.a % (P ^ (E.n + 1)), E.n))
              [] E.fn = "truncate" -> E.r1 = E.a % (P ^ E.n)
              [] E.fn = "ifelse" -> E.r1 = (IF E.n = 1 THEN E.a ELSE E.b)
              [] E.fn = "getitem" -> E.r1 = Coef(E.a, E.n)
              [] E.fn = "pow" -> E.r1 = PPow(E.a, E.n)
              [] E.fn = "copy" -> E.r1 = E.a
              [] E.fn = "mod" -> E.r1 = PMod(E.a, E.b)                 \* the function secpoly.mod(a, b), b # 0
              [] OTHER -> TRUE
\* only the length bound is public: the length of a result's share is a function of the operands' lengths (and public arguments)
LenPublicOK == E.fn = "lens" => Cardinality({E.lens[i] : i \in DOMAIN E.lens}) = 1
\* ---- C24 ----
IrrOK == E.fn = "irr" => ((E.r1 = 1) <=> Irreducible(E.a))
NextIrrOK == E.fn = "nextirr" => IsNextMonicIrr(E.a, E.r1)
\* find_irreducible(p, d) = r1: the smallest monic irreducible of degree d
FindIrrOK == E.fn = "findirr" => /\ Deg(E.r1) = E.n /\ Monic(E.r1) /\ Irreducible(E.r1)
                                 /\ \A c \in (P ^ E.n)..(E.r1 - 1) : ~Irreducible(c)
\* GF(modulus) accepts exactly the irreducible polynomials (r1 = 1: accepted)
GFAcceptOK == E.fn = "gfaccept" => ((E.r1 = 1) <=> Irreducible(E.a))
==========================================================================
