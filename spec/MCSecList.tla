---- MODULE MCSecList ----
EXTENDS SecList
V3 == {0, 1, 2}
====
