---------------------------- MODULE WireTrace ----------------------------
(* Validates executions recorded from the real MessageExchanger against Wire: every logged call  *)
(* (send / data_received with k bytes / receive) must be a step of Wire whose successor state     *)
(* agrees with the observation logged after the call.  A trace that cannot be continued is a      *)
(* deadlock of this spec (reported with tid and l).                                               *)
EXTENDS Wire, Json, IOUtils
VARIABLES tid, l, verdict
Traces == JsonDeserialize(IOEnv.TRACE_FILE)
tvars == <<vars, tid, l, verdict>>
Ev == Traces[tid][l]
ObsGot(o) == {<<o[i][1], o[i][2]>> : i \in 1..Len(o)}
SpecGot(g) == {<<pc, g[pc]>> : pc \in DOMAIN g}
Judge(o) ==
  IF SpecGot(got') # ObsGot(o.got) THEN "got"
  ELSE IF err' # o.err THEN "err"
  ELSE IF peer' # o.peer THEN "peer"
  ELSE IF peer' # NoPeer /\ HasHS /\ keys' # o.keys THEN "keys"
  ELSE "ok"
TraceInit == Init /\ tid \in 1..Len(Traces) /\ l = 1 /\ verdict = "ok"
TraceNext ==
  \/ /\ l <= Len(Traces[tid]) /\ verdict = "ok"
     /\ l' = l + 1 /\ tid' = tid
     /\ \/ (Ev.a = "send" /\ Send)
        \/ (Ev.a = "arrive" /\ Arrive(Ev.k))
        \/ (Ev.a = "recv" /\ Receive(Ev.pc))
     /\ verdict' = Judge(Ev.obs)
  \/ /\ (l > Len(Traces[tid]) \/ verdict # "ok") /\ UNCHANGED tvars
TraceSpec == TraceInit /\ [][TraceNext]_tvars
Accepted == verdict = "ok"
\* at the end of a complete trace everything was delivered
EndOK == (l > Len(Traces[tid]) /\ verdict = "ok" /\ Quiescent /\ DistinctLabels) => DOMAIN got = Labels
==========================================================================
