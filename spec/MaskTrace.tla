---------------------------- MODULE MaskTrace ----------------------------
(* C18 binding: openings recorded inside the real protocols (first opening of trunc, sgn, lsb, _mod, to_bits;      *)
(* is_zero_public) with the plaintext secret a known to the harness.  ParamOK: the random bits and the bound of     *)
(* the bounded random number requested by the code are those of Masking.tla (whose views TLC proves masked).        *)
(* ViewOK: the opened value is secret + offset + a mask from that mask space.  IndepOK: a second run with the same   *)
(* random tape and another secret opens the same mask (the mask does not depend on the secret).                      *)
EXTENDS Integers, Sequences, TLC, Json, IOUtils
Evs == JsonDeserialize(IOEnv.TRACE_FILE)
VARIABLE k
TInit == k \in 1..Len(Evs)
TNext == UNCHANGED k
TSpec == TInit /\ [][TNext]_k
E == Evs[k]
RECURSIVE MulMod(_, _, _)
MulMod(a, b, p) == IF b = 0 THEN 0 ELSE LET d == (2 * MulMod(a, b \div 2, p)) % p IN IF b % 2 = 1 THEN (d + a) % p ELSE d     \* a, b in 0..p-1
Signed(x, p) == IF 2 * x > p THEN x - p ELSE x
\* offset and mask interval [lo, hi) per protocol, from Masking.tla with the recorded bound
Off == CASE E.proto = "trunc" -> 2 ^ (E.l - 1) [] E.proto = "sgn" -> 2 ^ E.l [] E.proto = "lsb" -> 2 ^ E.l
         [] E.proto = "tobits" -> 2 ^ E.bl [] E.proto = "mod" -> 2 ^ E.l - ((2 ^ E.l) % E.b) [] E.proto = "convert" -> 2 ^ (E.l - 1) [] OTHER -> 0
Lo == CASE E.proto = "tobits" -> 1 - 2 ^ E.l [] E.proto = "mod" -> 1 - E.b [] OTHER -> 0
Hi == CASE E.proto = "trunc" -> (2 ^ E.f) * E.bound [] E.proto = "sgn" -> (2 ^ E.l) * E.bound [] E.proto = "lsb" -> 2 * E.bound
        [] E.proto = "tobits" -> (2 ^ E.l) * E.bound [] E.proto = "mod" -> E.b * E.bound [] E.proto = "convert" -> E.d * E.bound [] OTHER -> 0
ParamOK == CASE E.proto = "trunc" -> E.nbits = E.f /\ E.bound = 2 ^ (E.k + E.l - E.f)
             [] E.proto = "sgn" -> E.nbits = E.l /\ E.bound = 2 ^ E.k
             [] E.proto = "lsb" -> E.nbits = 1 /\ E.bound = 2 ^ (E.l + E.k - 1)
             [] E.proto = "tobits" -> E.nbits = E.l /\ E.bound = 2 ^ (E.bl + E.k - E.l)
             [] E.proto = "mod" -> E.bound = (2 ^ (E.k + E.l)) \div E.b + 1
             [] E.proto = "convert" -> E.bound = (2 ^ (E.k + E.l)) \div E.d + 1        \* d contributions (subsets / dealers)
             [] OTHER -> TRUE
Mask == Signed((E.c - E.a - Off) % E.p, E.p)
ViewOK == IF E.proto = "zero" THEN (E.c = 0) <=> (E.a % E.p = 0)
          ELSE Lo <= Mask /\ Mask < Hi
IndepOK == E.haspair =>
             IF E.proto = "zero" THEN (E.a % E.p # 0 /\ E.pa % E.p # 0) => MulMod(E.c, E.pa % E.p, E.p) = MulMod(E.pc, E.a % E.p, E.p)     \* c / a = c' / a'
             ELSE (E.c - E.a) % E.p = (E.pc - E.pa) % E.p
=========================================================================
