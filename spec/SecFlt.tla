---------------------------- MODULE SecFlt ----------------------------
(* C05: secure floating-point arithmetic with an s-bit significand, u = 2^-(s-1).  Every event carries the     *)
(* operands X, Y and every party's result R as integers over a common power-of-two scale S (value = X / S),      *)
(* chosen by the harness so that everything is exact; N = 2^(s-1) = 1/u.  All bounds are cross-multiplied.        *)
EXTENDS Integers, Sequences, TLC, Json, IOUtils
Abs(x) == IF x < 0 THEN -x ELSE x
Max(a, b) == IF a >= b THEN a ELSE b
B(p) == IF p THEN 1 ELSE 0
Evs == JsonDeserialize(IOEnv.TRACE_FILE)
VARIABLE k
TInit == k \in 1..Len(Evs)
TNext == UNCHANGED k
TSpec == TInit /\ [][TNext]_k
E == Evs[k]
\* |r - exact| <= 16 u * bound, with u = 1/N:   N |r - exact| <= 16 bound
Within(e, r) ==
  LET X == e.x  Y == e.y  S == e.s  N == e.nn IN
  CASE e.op = "io"  -> N * Abs(r - X) <= 2 * Abs(X)                         \* input/output: within 2u |x|
    [] e.op = "add" -> N * Abs(r - (X + Y)) <= 16 * Max(Abs(X), Abs(Y))
    [] e.op = "sub" -> N * Abs(r - (X - Y)) <= 16 * Max(Abs(X), Abs(Y))
    [] e.op = "mul" -> N * Abs(r * S - X * Y) <= 16 * Abs(X * Y)            \* exact result X Y / S
    [] e.op = "div" -> N * Abs(r * Y - X * S) <= 16 * Abs(X) * S            \* exact result X S / Y
    \* comparisons (r is 0 or 1 times S): exact whenever |x - y| > 16u max(|x|, |y|)
    [] e.op \in {"lt", "le", "eq", "ge", "gt", "ne"} ->
         (N * Abs(X - Y) > 16 * Max(Abs(X), Abs(Y))) =>
            r = S * (CASE e.op = "lt" -> B(X < Y) [] e.op = "le" -> B(X <= Y) [] e.op = "eq" -> B(X = Y)
                       [] e.op = "ge" -> B(X >= Y) [] e.op = "gt" -> B(X > Y) [] e.op = "ne" -> B(X # Y))
FltOK == \A p \in 1..Len(E.res) : Within(E, E.res[p])
AgreeOK == \A p \in 1..Len(E.res) : E.res[p] = E.res[1]
=======================================================================
