---------------------------- MODULE ArraysTrace ----------------------------
(* Validates recorded results of secure NumPy arrays (opened), of plain NumPy and of elementwise secure scalars    *)
(* against Arrays.tla.  Event: fn, A, B, C (operands), axis, k, k2 (public arguments), kind ("int" | "fxp" | "fld"), *)
(* P (field modulus), F (fractional bits), R (opened secure array result), N (NumPy's result), S (elementwise       *)
(* secure scalars, <<>> data with shape <<-1>> when not recorded), tol (units for approximate fixed-point results). *)
EXTENDS Arrays, Json, IOUtils
Evs == JsonDeserialize(IOEnv.TRACE_FILE)
VARIABLE k
TInit == k \in 1..Len(Evs)
TNext == UNCHANGED k
TSpec == TInit /\ [][TNext]_k
E == Evs[k]
RECURSIVE PowMod(_, _)
PowMod(b, e) == IF e = 0 THEN 1 ELSE LET h == PowMod(b, e \div 2)  hh == (h * h) % E.P IN IF e % 2 = 1 THEN (hh * (b % E.P)) % E.P ELSE hh
RECURSIVE IPow(_, _)
IPow(a, n) == IF n = 0 THEN 1 ELSE IF E.kind = "fld" THEN (a * IPow(a, n - 1)) % E.P ELSE a * IPow(a, n - 1)
\* products of field elements are reduced factor by factor (TLC integers are 32-bit)
PrdSeqM(s) == FoldSeq(LAMBDA a, b : IF E.kind = "fld" THEN (a * b) % E.P ELSE a * b, 1, s)
\* keepdims = TRUE (E.k2 = 1 for reductions): the reduced axis stays with length 1 (all axes for axis = None)
Keep(R) == IF E.k2 # 1 THEN R
           ELSE IF E.axis = NoAxis THEN [sh |-> [i \in 1..Len(E.A.sh) |-> 1], d |-> R.d]
           ELSE [sh |-> [E.A.sh EXCEPT ![NormAxis(E.axis, Len(E.A.sh)) + 1] = 1], d |-> R.d]
\* reductions over several axes (E.axes: normalised, in descending order): one axis after the other
RECURSIVE ReduceAxes(_, _, _)
ReduceAxes(g(_), A, axes) == IF axes = <<>> THEN A ELSE ReduceAxes(g, ReduceLane(g, A, Head(axes)), Tail(axes))
ModP(A) == IF E.kind = "fld" THEN Elem1(LAMBDA v : v % E.P, A) ELSE A
Exact(fn) ==
  CASE fn = "add" -> Elem2(LAMBDA a, b : a + b, E.A, E.B)
    [] fn = "sub" -> Elem2(LAMBDA a, b : a - b, E.A, E.B)
    [] fn = "mul" -> Elem2(LAMBDA a, b : a * b, E.A, E.B)
    [] fn = "neg" -> Elem1(LAMBDA a : 0 - a, E.A)
    [] fn = "abs" -> Elem1(Abs, E.A)
    [] fn = "sgn" -> Elem1(LAMBDA a : Sgn(a) * (IF E.kind = "fxp" THEN 2 ^ E.F ELSE 1), E.A)
    [] fn = "lt" -> Elem2(LAMBDA a, b : B01(a < b), E.A, E.B)
    [] fn = "le" -> Elem2(LAMBDA a, b : B01(a <= b), E.A, E.B)
    [] fn = "gt" -> Elem2(LAMBDA a, b : B01(a > b), E.A, E.B)
    [] fn = "ge" -> Elem2(LAMBDA a, b : B01(a >= b), E.A, E.B)
    [] fn = "eq" -> Elem2(LAMBDA a, b : B01(a = b), E.A, E.B)
    [] fn = "ne" -> Elem2(LAMBDA a, b : B01(a # b), E.A, E.B)
    [] fn = "minimum" -> Elem2(Min, E.A, E.B)
    [] fn = "maximum" -> Elem2(Max, E.A, E.B)
    [] fn = "matmul" -> MatMul(E.A, E.B)
    [] fn = "outer" -> Outer(E.A, E.B)
    [] fn = "sum" -> Keep(ReduceLane(SumSeq, E.A, E.axis))
    [] fn = "prod" -> Keep(ReduceLane(PrdSeqM, E.A, E.axis))
    [] fn = "all" -> Keep(ReduceLane(AllSeq, E.A, E.axis))
    [] fn = "any" -> Keep(ReduceLane(AnySeq, E.A, E.axis))
    [] fn = "amin" -> Keep(ReduceLane(MinSeq, E.A, E.axis))
    [] fn = "amax" -> Keep(ReduceLane(MaxSeq, E.A, E.axis))
    [] fn = "argmin" -> Keep(ReduceLane(ArgMinSeq, E.A, E.axis))
    [] fn = "argmax" -> Keep(ReduceLane(ArgMaxSeq, E.A, E.axis))
    [] fn = "sum_t" -> ReduceAxes(SumSeq, E.A, E.axes)
    [] fn = "prod_t" -> ReduceAxes(PrdSeqM, E.A, E.axes)
    [] fn = "all_t" -> ReduceAxes(AllSeq, E.A, E.axes)
    [] fn = "any_t" -> ReduceAxes(AnySeq, E.A, E.axes)
    [] fn = "amin_t" -> ReduceAxes(MinSeq, E.A, E.axes)
    [] fn = "amax_t" -> ReduceAxes(MaxSeq, E.A, E.axes)
    [] fn = "cumsum" -> IF E.axis = NoAxis THEN MapLane(CumSum, Flat(E.A), 0) ELSE MapLane(CumSum, E.A, E.axis)
    [] fn = "sort" -> IF E.axis = NoAxis THEN MapLane(Sorted, Flat(E.A), 0) ELSE MapLane(Sorted, E.A, E.axis)
    [] fn = "flip" -> IF E.axis = NoAxis THEN [sh |-> E.A.sh, d |-> RevSeq(E.A.d)] ELSE MapLane(RevSeq, E.A, E.axis)
    [] fn = "roll" -> IF E.axis = NoAxis THEN [sh |-> E.A.sh, d |-> RollSeq(E.A.d, E.k)] ELSE MapLane(LAMBDA s : RollSeq(s, E.k), E.A, E.axis)
    [] fn = "reshape" -> [sh |-> E.B.d, d |-> E.A.d]
    [] fn = "flatten" -> Flat(E.A)
    [] fn = "transpose" -> Transpose(E.A)
    [] fn = "swapaxes" -> SwapAxes(E.A, E.k, E.k2)
    [] fn = "expand_dims" -> [sh |-> Insert(E.A.sh, NormAxis(E.axis, Len(E.A.sh) + 1) + 1, 1), d |-> E.A.d]
    [] fn = "squeeze" -> [sh |-> SelectSeq(E.A.sh, LAMBDA n : n # 1), d |-> E.A.d]
    [] fn = "concatenate" -> Concat(E.A, E.B, E.axis)
    [] fn = "stack" -> Stack(E.A, E.B, E.axis)
    [] fn = "vstack" -> IF Len(E.A.sh) = 1 THEN Stack(E.A, E.B, 0) ELSE Concat(E.A, E.B, 0)
    [] fn = "hstack" -> IF Len(E.A.sh) = 1 THEN Concat(E.A, E.B, 0) ELSE Concat(E.A, E.B, 1)
    [] fn = "append" -> Concat(Flat(E.A), Flat(E.B), 0)
    [] fn = "getitem" -> GetItem(E.A, E.k)
    [] fn = "slice" -> SliceA(E.A, E.k, E.k2)
    [] fn = "where" -> Where(E.C, E.A, E.B)
    [] fn = "io" -> E.A
    [] fn = "div" -> Elem2(LAMBDA a, b : (a * PowMod(b, E.P - 2)) % E.P, E.A, E.B)            \* prime fields, b # 0
    [] fn = "pow" -> Elem1(LAMBDA a : IPow(a, E.k), E.A)
    [] fn = "lshift" -> Elem1(LAMBDA a : a * (2 ^ E.k), E.A)
    [] fn = "lsb" -> Elem1(LAMBDA a : a % 2, E.A)                          \* least significant bit, also of negative integers
    [] fn = "tobits" -> Mk(E.A.sh \o <<E.k>>, LAMBDA idx : ((At(E.A, SubSeq(idx, 1, Len(idx) - 1)) % (2 ^ E.k)) \div (2 ^ idx[Len(idx)])) % 2)
    [] fn = "copy" -> E.A
Approx == E.kind = "fxp" /\ E.fn \in {"mul", "matmul", "outer", "prod"}
\* fixed-point products: operands are scaled by 2^F, the exact result by 2^(2F) (prod of n factors: see harness, n = 2 only)
Close(X, Y) == /\ X.sh = Y.sh /\ Len(X.d) = Len(Y.d)
               /\ \A i \in 1..Len(X.d) : Abs(X.d[i] * (2 ^ E.F) - Y.d[i]) <= E.tol * (2 ^ E.F)
Same(X, Y) == X.sh = Y.sh /\ X.d = Y.d
Expected == ModP(Exact(E.fn))
\* the opened secure array
SecOK == IF Approx THEN Close(E.R, Expected) ELSE Same(ModP(E.R), Expected)
\* plain NumPy computes what the specification says (the specification is NumPy's semantics)
OracleOK == E.N.sh = <<-1>> \/ (IF Approx THEN Close(E.N, Expected) ELSE Same(ModP(E.N), Expected))
\* elementwise secure scalars agree
ScalarOK == E.S.sh = <<-1>> \/ (IF Approx THEN Close(E.S, Expected) ELSE Same(ModP(E.S), Expected))
=============================================================================
