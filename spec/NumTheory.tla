---------------------------- MODULE NumTheory ----------------------------
(* Definitions of the number-theoretic functions mpyc.gmpy provides as pure-Python stand-ins for gmpy2  *)
(* (is_prime, next_prime, prev_prime, invert, gcdext with GMP's normalisation, legendre, jacobi,         *)
(* kronecker, isqrt, iroot, is_square, factor_prime_power, ratrec) and validation of recorded results.   *)
EXTENDS Integers, Sequences, FiniteSets, TLC, Json, IOUtils
Abs(x) == IF x < 0 THEN -x ELSE x
Sign(x) == IF x < 0 THEN -1 ELSE IF x > 0 THEN 1 ELSE 0
Mod(x, m) == x % m                       \* m > 0: result in 0..m-1 also for negative x
RECURSIVE Gcd(_, _)
Gcd(a, b) == IF b = 0 THEN Abs(a) ELSE Gcd(b, a % Abs(b))
RECURSIVE NoDivisorFrom(_, _)
NoDivisorFrom(x, d) == IF d * d > x THEN TRUE ELSE IF x % d = 0 THEN FALSE ELSE NoDivisorFrom(x, d + 1)
\* (bounded quantifiers instead of linear recursion, so that TLC's evaluation stack stays shallow: divisors up to 200 for
\*  arguments below 200^2, up to 46340 (46340^2 < 2^31) otherwise; NoDivisorFrom / LeastFactorFrom define the same functions)
DivBound(x) == IF x < 40000 THEN 200 ELSE 46340
IsPrime(x) == x >= 2 /\ \A d \in 2..DivBound(x) : d * d > x \/ x % d # 0
RECURSIVE NextPrime(_)
NextPrime(x) == IF IsPrime(x + 1) THEN x + 1 ELSE NextPrime(x + 1)
RECURSIVE PrevPrime(_)
PrevPrime(x) == IF IsPrime(x - 1) THEN x - 1 ELSE PrevPrime(x - 1)       \* x >= 3
RECURSIVE LeastFactorFrom(_, _)
LeastFactorFrom(x, d) == IF d * d > x THEN x ELSE IF x % d = 0 THEN d ELSE LeastFactorFrom(x, d + 1)
LeastFactor(x) == IF \E d \in 2..DivBound(x) : d * d <= x /\ x % d = 0                          \* x >= 2
                  THEN CHOOSE d \in 2..DivBound(x) : d * d <= x /\ x % d = 0 /\ \A c \in 2..(d - 1) : x % c # 0
                  ELSE x
RECURSIVE PowMod(_, _, _)
PowMod(b, e, m) == IF e = 0 THEN 1 % m
                   ELSE LET h == PowMod(b, e \div 2, m)  hh == (h * h) % m IN IF e % 2 = 1 THEN (hh * (b % m)) % m ELSE hh
\* Legendre symbol for an odd prime p (Euler's criterion)
Legendre(x, p) == LET v == PowMod(Mod(x, p), (p - 1) \div 2, p) IN IF v = 0 THEN 0 ELSE IF v = 1 THEN 1 ELSE -1
\* Jacobi symbol for odd y > 0: product of Legendre symbols over the prime factorisation of y
RECURSIVE Jacobi(_, _)
Jacobi(x, y) == IF y = 1 THEN 1 ELSE LET p == LeastFactor(y) IN Legendre(x, p) * Jacobi(x, y \div p)
\* Kronecker symbol: (x|-1) = -1 iff x < 0; (x|2) = 0 for even x, 1 for x = +-1 mod 8, -1 for x = +-3 mod 8; (x|0) = [|x| = 1]
Kr2(x) == IF x % 2 = 0 THEN 0 ELSE IF Mod(x, 8) \in {1, 7} THEN 1 ELSE -1
RECURSIVE PowI(_, _)
PowI(b, e) == IF e = 0 THEN 1 ELSE b * PowI(b, e - 1)
RECURSIVE TwoAdic(_)
TwoAdic(y) == IF y % 2 = 0 THEN 1 + TwoAdic(y \div 2) ELSE 0
RECURSIVE OddPart(_)
OddPart(y) == IF y % 2 = 0 THEN OddPart(y \div 2) ELSE y
Kronecker(x, y) == IF y = 0 THEN (IF Abs(x) = 1 THEN 1 ELSE 0)
                   ELSE (IF y < 0 /\ x < 0 THEN -1 ELSE 1) * PowI(Kr2(x), TwoAdic(Abs(y))) * Jacobi(x, OddPart(Abs(y)))
RECURSIVE IsqrtFrom(_, _)
IsqrtFrom(x, y) == IF (y + 1) * (y + 1) > x THEN y ELSE IsqrtFrom(x, y + 1)
IsIsqrt(x, y) == y >= 0 /\ y * y <= x /\ (y + 1) * (y + 1) > x
IsIroot(x, n, y) == y >= 0 /\ PowI(y, n) <= x /\ PowI(y + 1, n) > x

Evs == JsonDeserialize(IOEnv.TRACE_FILE)
VARIABLE k
TInit == k \in 1..Len(Evs)
TNext == UNCHANGED k
TSpec == TInit /\ [][TNext]_k
E == Evs[k]
PrimeOK == CASE E.fn = "is_prime" -> (E.r1 = 1) <=> IsPrime(E.x)
             [] E.fn = "next_prime" -> E.r1 = NextPrime(IF E.x < 1 THEN 1 ELSE E.x)
             [] E.fn = "prev_prime" -> IF E.x < 3 THEN E.exc = "ValueError" ELSE (E.exc = "" /\ E.r1 = PrevPrime(E.x))
             [] OTHER -> TRUE
InvertOK == E.fn = "invert" =>
              IF E.y = 0 THEN E.exc = "ZeroDivisionError"
              ELSE IF Abs(E.y) = 1 THEN E.exc = "" /\ E.r1 = 0
              ELSE IF Gcd(E.x, E.y) = 1 THEN E.exc = "" /\ E.r1 > 0 /\ E.r1 < Abs(E.y) /\ Mod(E.x * E.r1, Abs(E.y)) = 1
              ELSE E.exc = "ZeroDivisionError"
\* gcdext(a, b) = (g, s, t) with GMP's normalisation as stated in the stub's docstring
GcdextOK == E.fn = "gcdext" =>
  LET a == E.x  b == E.y  g == E.r1  s == E.r2  t == E.r3
      Small(ss, tt) == 2 * g * Abs(ss) < Abs(b) /\ 2 * g * Abs(tt) < Abs(a)
      ExistsSmall == \E ss \in (0 - Abs(b))..Abs(b) : \E tt \in (0 - Abs(a))..Abs(a) : a * ss + b * tt = g /\ Small(ss, tt)
  IN /\ g = Gcd(a, b) /\ g = a * s + b * t
     /\ IF a = 0 /\ b = 0 THEN s = 0 /\ t = 0
        ELSE IF ExistsSmall THEN Small(s, t)
        ELSE IF Abs(a) = g /\ Abs(b) = g THEN s = 0 /\ t = Sign(b)
        ELSE /\ ((b = 0 \/ Abs(b) = 2 * g) => s = Sign(a))
             /\ ((a = 0 \/ Abs(a) = 2 * g) => t = Sign(b))
SymbolOK == CASE E.fn = "legendre" -> (IsPrime(E.y) /\ E.y > 2) => E.r1 = Legendre(E.x, E.y)
              [] E.fn = "jacobi" -> IF E.y > 0 /\ E.y % 2 = 1 THEN E.exc = "" /\ E.r1 = Jacobi(E.x, E.y) ELSE E.exc = "ValueError"
              [] E.fn = "kronecker" -> E.r1 = Kronecker(E.x, E.y)
              [] OTHER -> TRUE
RootOK == CASE E.fn = "isqrt" -> IsIsqrt(E.x, E.r1)
            [] E.fn = "is_square" -> (E.r1 = 1) <=> (\E y \in 0..E.x : y * y = E.x)
            [] E.fn = "iroot" -> IsIroot(E.x, E.n, E.r1) /\ ((E.r2 = 1) <=> PowI(E.r1, E.n) = E.x)
            [] OTHER -> TRUE
\* factor_prime_power(x) = (p, d)  <=>  p prime, d >= 1, p^d = x; ValueError exactly when x is no prime power
RECURSIVE OnlyP(_, _)
OnlyP(x, p) == x = 1 \/ (x % p = 0 /\ OnlyP(x \div p, p))
IsPrimePower(x) == x >= 2 /\ OnlyP(x, LeastFactor(x))
RECURSIVE LogP(_, _)
LogP(x, p) == IF x = 1 THEN 0 ELSE 1 + LogP(x \div p, p)
FactorOK == E.fn = "factor_prime_power" =>
              IF IsPrimePower(E.x) THEN E.exc = "" /\ E.r1 = LeastFactor(E.x) /\ E.r2 = LogP(E.x, E.r1)
              ELSE E.exc = "ValueError"
\* prime powers too large for TLC's integers: the harness builds x = p^d itself and passes only (p, d) = (E.x, E.n)
FactorBigOK == (E.fn = "factor_prime_power_of" /\ IsPrime(E.x) /\ E.n >= 1) =>
                  (E.exc = "" /\ E.r1 = E.x /\ E.r2 = E.n)
\* ratrec(x, y, N, D) = (n, d): n = x d (mod y), |n| <= N, 0 < d <= D, gcd(n, d) = 1; ValueError iff no such pair
RatrecOK == E.fn = "ratrec" =>
  LET Good(n, d) == Mod(n - E.x * d, E.y) = 0 /\ Gcd(n, d) = 1
      Ex == \E d \in 1..E.D : \E n \in (0 - E.N)..E.N : Good(n, d)
  IN IF Ex THEN E.exc = "" /\ Abs(E.r1) <= E.N /\ E.r2 >= 1 /\ E.r2 <= E.D /\ Good(E.r1, E.r2)
     ELSE E.exc = "ValueError"
==========================================================================
