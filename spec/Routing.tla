---------------------------- MODULE Routing ----------------------------
(* Who receives what from transfer / input / output (runtime.py:345 transfer, 403 input, 512 output). *)
(* A communication graph is a sequence of arcs <<a, b>> (sender a, receiver b) in "sender order":     *)
(*   senders/receivers form : for every receiver the senders in the order given                       *)
(*   dict form              : keys in insertion order, for each key its receivers                     *)
(*   pair-list form         : the pairs as given.                                                     *)
(* Expected(arcs, sint, val, r) is what party r must obtain.  The second half transcribes how the code  *)
(* derives, on each party separately, whom to send to and whom to expect from, and checks that the two  *)
(* views match (no party waits for a message nobody sends, no message is left unconsumed).              *)
EXTENDS Integers, Sequences, FiniteSets, TLC
NONE == <<-1>>                                   \* encoding of "nothing" for a scalar result
RECURSIVE Incoming(_, _)
Incoming(arcs, r) == IF arcs = <<>> THEN <<>>
                     ELSE (IF Head(arcs)[2] = r THEN <<Head(arcs)[1]>> ELSE <<>>) \o Incoming(Tail(arcs), r)
RECURSIVE Outgoing(_, _)
Outgoing(arcs, a) == IF arcs = <<>> THEN <<>>
                     ELSE (IF Head(arcs)[1] = a THEN <<Head(arcs)[2]>> ELSE <<>>) \o Outgoing(Tail(arcs), a)
\* transfer: list of the designated senders' values in sender order; with an int sender the bare value,
\* and nothing for a party that is not a receiver
ExpectedTransfer(arcs, sint, val, r) ==
  LET inc == Incoming(arcs, r) IN
  IF sint THEN (IF inc = <<>> THEN NONE ELSE <<val[inc[1] + 1]>>)
  ELSE [k \in 1..Len(inc) |-> val[inc[k] + 1]]
\* output: receivers obtain the value, the others nothing
ExpectedOutput(R, v, r) == IF r \in R THEN <<v>> ELSE NONE
\* input: every party obtains sharings that open to the senders' values, in sender order
ExpectedInput(senders, val) == [k \in 1..Len(senders) |-> val[senders[k] + 1]]

---------------------------------------------------------------------
\* transcription of the three ways transfer() derives my_senders / my_receivers on party i
SeqToSet(s) == {s[k] : k \in 1..Len(s)}
MySendersSR(S, R, i) == IF i \in SeqToSet(R) THEN S ELSE <<>>
MyReceiversSR(S, R, i) == IF i \in SeqToSet(S) THEN R ELSE <<>>
\* dict as a sequence of <<key, sequence of receivers>>
RECURSIVE DictSenders(_, _)
DictSenders(dct, i) == IF dct = <<>> THEN <<>>
                       ELSE (IF i \in SeqToSet(Head(dct)[2]) THEN <<Head(dct)[1]>> ELSE <<>>) \o DictSenders(Tail(dct), i)
RECURSIVE DictGet(_, _)
DictGet(dct, i) == IF dct = <<>> THEN <<>>            \* intended semantics: a party that is no key sends nothing
                   ELSE IF Head(dct)[1] = i THEN Head(dct)[2] ELSE DictGet(Tail(dct), i)
RECURSIVE ArcsSR(_, _)
ArcsSR(S, R) == IF R = <<>> THEN <<>> ELSE [k \in 1..Len(S) |-> <<S[k], Head(R)>>] \o ArcsSR(S, Tail(R))
RECURSIVE ArcsDict(_)
ArcsDict(dct) == IF dct = <<>> THEN <<>>
                 ELSE [k \in 1..Len(Head(dct)[2]) |-> <<Head(dct)[1], Head(dct)[2][k]>>] \o ArcsDict(Tail(dct))

=======================================================================
