---------------------------- MODULE RtTrace ----------------------------
(* Monitor for executions of the real MPyC runtime (all parties of one run, events in execution   *)
(* order).  It re-derives, from the fork / uci events alone, the program counter every coroutine   *)
(* context must have (the discipline of asyncoro._ProgramCounterWrapper and mpc_coro_no_pc, as      *)
(* modelled in PCSched) and checks every send/receive label against it; it checks that _hop is a    *)
(* function (same input, same output on every party) without observed collisions, that labels are   *)
(* unique per directed connection, that the frames parsed independently from the raw wire bytes     *)
(* are exactly the sends, that at the end sent = received on every connection, that a top-level     *)
(* barrier returns only when all coroutines started before it are reconciled, that connections are  *)
(* closed only when no coroutine is open, and that every connection is torn down.                   *)
(* verdict names the first failing clause; INVARIANT Accepted.                                      *)
EXTENDS Naturals, Sequences, FiniteSets, TLC, Json, IOUtils
Traces == JsonDeserialize(IOEnv.TRACE_FILE)
VARIABLES run, i, verdict, amb, tpc, open, hop, lastfork, sent, rcvd, bar, conn, wired, live, kids, kids
vars == <<run, i, verdict, amb, tpc, open, hop, lastfork, sent, rcvd, bar, conn, wired, live, kids>>

L == 4194304   \* 2^22
Zero == <<0, 0, 524288>>   \* limbs of 0 + 2^63  (2^63 = 2^19 * 2^44)
Inc(x) == IF x[1] + 1 < L THEN <<x[1] + 1, x[2], x[3]>>
          ELSE IF x[2] + 1 < L THEN <<0, x[2] + 1, x[3]>> ELSE <<0, 0, x[3] + 1>>
M == Traces[run].m
Party == 0..(M - 1)
Conns == {c \in Party \X Party : c[1] # c[2]}
\* events are tuples <<ev, p, ctx, peer, pc, d, cpc, cd, tid, haspc, level, len, frames, rest>>
Rec(x) == [ev |-> x[1], p |-> x[2], ctx |-> x[3], peer |-> x[4], pc |-> x[5], d |-> x[6], cpc |-> x[7],
           cd |-> x[8], tid |-> x[9], haspc |-> x[10], level |-> x[11], len |-> x[12], frames |-> x[13],
           rest |-> x[14]]
E == Rec(Traces[run].ev[i])
Upd(f, k, v) == (k :> v) @@ f   \* eager (a lazy [x \in ... |-> ...] nests closures under VIEW)

Init == /\ run \in 1..Len(Traces)
        /\ i = 1
        /\ verdict = "ok"
        /\ amb = [p \in 0..(Traces[run].m - 1) |-> <<Zero, 0>>]
        /\ tpc = <<>>
        /\ open = [p \in 0..(Traces[run].m - 1) |-> {}]
        /\ hop = <<>>
        /\ lastfork = [p \in 0..(Traces[run].m - 1) |-> <<>>]
        /\ sent = [c \in {c \in (0..(Traces[run].m - 1)) \X (0..(Traces[run].m - 1)) : c[1] # c[2]} |-> <<>>]
        /\ rcvd = [c \in {c \in (0..(Traces[run].m - 1)) \X (0..(Traces[run].m - 1)) : c[1] # c[2]} |-> {}]
        /\ bar = [p \in 0..(Traces[run].m - 1) |-> {}]
        /\ conn = [p \in 0..(Traces[run].m - 1) |-> {}]
        /\ wired = {}
        /\ live = [p \in 0..(Traces[run].m - 1) |-> {}]     \* coroutines started and not yet finished (own observation)
        /\ kids = {}                                        \* all child pcs produced by hop so far

HasOwn(p, c) == <<p, c>> \in DOMAIN tpc
CtxPc(p, c) == IF HasOwn(p, c) THEN tpc[<<p, c>>] ELSE amb[p]
Labels(s) == {s[k][1] : k \in 1..Len(s)}

\* <<verdict, amb', tpc', open', hop', lastfork', sent', rcvd', bar', conn', wired', live'>>
Same == <<"ok", amb, tpc, open, hop, lastfork, sent, rcvd, bar, conn, wired, live, kids>>
Fail(v) == [Same EXCEPT ![1] = v]
SetPc(r, p, c, pc) == IF HasOwn(p, c) THEN [r EXCEPT ![3] = Upd(tpc, <<p, c>>, pc)]
                      ELSE [r EXCEPT ![2] = [amb EXCEPT ![p] = pc]]

Step(e) ==
  LET p == e.p  cur == CtxPc(p, e.ctx) IN
  CASE e.ev = "fork" ->
         LET key == <<e.pc[1], e.pc[2], e.pc[3], e.d>> IN
         IF <<e.pc[1], e.pc[2], e.pc[3]>> # Inc(cur[1]) \/ e.d # cur[2] THEN Fail("fork-parent-pc")
         ELSE IF e.cd # e.d + 1 THEN Fail("fork-depth")
         ELSE IF key \in DOMAIN hop /\ hop[key] # e.cpc THEN Fail("hop-not-a-function")
         ELSE IF key \notin DOMAIN hop /\ e.cpc \in kids THEN Fail("hop-collision-observed")
         ELSE [SetPc(Same, p, e.ctx, <<Inc(cur[1]), cur[2]>>) EXCEPT
                  ![5] = Upd(hop, key, e.cpc), ![6] = [lastfork EXCEPT ![p] = <<e.cpc, e.cd>>],
                  ![13] = kids \cup {e.cpc}]
    [] e.ev = "task" ->
         IF e.haspc /\ lastfork[p] # <<e.cpc, e.cd>> THEN Fail("task-without-fork")
         ELSE [Same EXCEPT ![3] = (IF e.haspc THEN Upd(tpc, <<p, e.tid>>, <<e.cpc, e.cd>>) ELSE tpc),
                           ![4] = [open EXCEPT ![p] = @ \cup {e.tid}],
                           ![6] = [lastfork EXCEPT ![p] = <<>>],
                           ![12] = [live EXCEPT ![p] = @ \cup {e.tid}]]
    [] e.ev = "taskdone" -> [Same EXCEPT ![12] = [live EXCEPT ![p] = @ \ {e.tid}]]
    [] e.ev = "reconcile" ->
         IF e.tid \notin open[p] THEN Fail("reconcile-unknown-task")
         ELSE [Same EXCEPT ![4] = [open EXCEPT ![p] = @ \ {e.tid}]]
    [] e.ev = "uci" ->
         IF <<e.pc[1], e.pc[2], e.pc[3]>> # Inc(cur[1]) \/ e.d # cur[2] THEN Fail("uci-pc")
         ELSE SetPc(Same, p, e.ctx, <<Inc(cur[1]), cur[2]>>)
    [] e.ev = "send" ->
         IF <<e.pc[1], e.pc[2], e.pc[3]>> # cur[1] \/ e.d # cur[2] THEN Fail("send-label-not-context-pc")
         ELSE IF e.pc \in Labels(sent[<<p, e.peer>>]) THEN Fail("duplicate-send-label")
         ELSE [Same EXCEPT ![7] = [sent EXCEPT ![<<p, e.peer>>] = Append(@, <<e.pc, e.len>>)]]
    [] e.ev = "recv" ->
         IF <<e.pc[1], e.pc[2], e.pc[3]>> # cur[1] \/ e.d # cur[2] THEN Fail("recv-label-not-context-pc")
         ELSE IF e.pc \in rcvd[<<p, e.peer>>] THEN Fail("duplicate-recv-label")
         ELSE [Same EXCEPT ![8] = [rcvd EXCEPT ![<<p, e.peer>>] = @ \cup {e.pc}]]
    [] e.ev = "wire" ->     \* frames found by the independent parser on the raw bytes p -> peer
         IF e.frames # sent[<<p, e.peer>>] THEN Fail("wire-frames-differ-from-sends")
         ELSE IF e.rest # 0 THEN Fail("wire-trailing-bytes")
         ELSE [Same EXCEPT ![11] = wired \cup {<<p, e.peer>>}]
    [] e.ev = "barrier_in" ->
         IF e.d = 0 /\ e.ctx = 0 /\ e.level # Cardinality(open[p]) THEN Fail("pc-level-differs-from-open-tasks")
         ELSE [Same EXCEPT ![9] = [bar EXCEPT ![p] = IF e.d = 0 THEN open[p] \cup live[p] ELSE @]]
    [] e.ev = "barrier_out" ->
         IF e.d = 0 /\ bar[p] \cap (open[p] \cup live[p]) # {} THEN Fail("barrier-returned-with-open-coroutine")
         ELSE IF e.d = 0 /\ e.ctx = 0 /\ e.level # Cardinality(open[p]) THEN Fail("pc-level-differs-from-open-tasks")
         ELSE Same
    [] e.ev = "close" ->
         IF open[p] # {} \/ live[p] # {} THEN Fail("connection-closed-with-open-coroutine") ELSE Same
    [] e.ev = "set" -> [Same EXCEPT ![10] = [conn EXCEPT ![p] = @ \cup {e.peer}]]
    [] e.ev = "unset" ->
         IF e.peer \notin conn[p] THEN Fail("unset-unknown-connection")
         ELSE [Same EXCEPT ![10] = [conn EXCEPT ![p] = @ \ {e.peer}]]
    [] e.ev = "end" ->      \* run completed on all parties
         IF \E c \in Conns : Labels(sent[c]) # rcvd[<<c[2], c[1]>>] THEN Fail("sent-and-received-labels-differ")
         ELSE IF \E q \in Party : open[q] # {} \/ live[q] # {} THEN Fail("open-coroutine-at-end")
         ELSE IF \E q \in Party : conn[q] # {} THEN Fail("connection-not-closed")
         ELSE IF wired # Conns THEN Fail("wire-not-checked")
         ELSE IF e.rest # 0 THEN Fail("buffers-not-empty-at-shutdown")
         ELSE Same
    [] OTHER -> Same        \* shutdown_in/out, done: no constraint

Next == \/ /\ i <= Len(Traces[run].ev) /\ verdict = "ok"
           /\ LET r == Step(E) IN
              /\ verdict' = r[1] /\ amb' = r[2] /\ tpc' = r[3] /\ open' = r[4] /\ hop' = r[5]
              /\ lastfork' = r[6] /\ sent' = r[7] /\ rcvd' = r[8] /\ bar' = r[9] /\ conn' = r[10]
              /\ wired' = r[11] /\ live' = r[12] /\ kids' = r[13]
           /\ i' = i + 1 /\ run' = run
        \/ /\ (i > Len(Traces[run].ev) \/ verdict # "ok") /\ UNCHANGED vars
Spec == Init /\ [][Next]_vars
Accepted == verdict = "ok"
View == <<run, i, verdict>>
========================================================================
