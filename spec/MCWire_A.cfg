SPECIFICATION Spec
CONSTANTS
  Msgs <- MsgsA
  NKeys = 1
  HasHS = TRUE
  PeerPid = 7
  MaxChunk = 64
INVARIANT NoErr
INVARIANT DeliveredRight
INVARIANT NoPartialDelivery
INVARIANT AllDelivered
INVARIANT HandshakeExact
INVARIANT DupDetected
CHECK_DEADLOCK FALSE
