---------------------------- MODULE Arrays ----------------------------
(* C37: n-dimensional arrays with NumPy semantics from first principles.  An array is a record                  *)
(* [sh |-> shape (sequence of naturals), d |-> data in row-major order (sequence)].  Scalars have shape <<>>.    *)
(* Elementwise operations broadcast as NumPy does; reductions, matmul, reshaping, stacking, sorting and          *)
(* indexing are defined on multi-indices.  Integers exactly; finite field elements modulo P; fixed-point         *)
(* numbers as integers scaled by 2^F with a stated tolerance for products.                                        *)
EXTENDS Integers, Sequences, FiniteSets, TLC
RECURSIVE ProdSeq(_)
ProdSeq(s) == IF s = <<>> THEN 1 ELSE Head(s) * ProdSeq(Tail(s))
Size(sh) == ProdSeq(sh)
Stride(sh, i) == ProdSeq(SubSeq(sh, i + 1, Len(sh)))
Unravel(k, sh) == [i \in 1..Len(sh) |-> (k \div Stride(sh, i)) % sh[i]]           \* 0-based flat k -> 0-based multi-index
RECURSIVE RavelFrom(_, _, _)
RavelFrom(idx, sh, i) == IF i > Len(sh) THEN 0 ELSE idx[i] * Stride(sh, i) + RavelFrom(idx, sh, i + 1)
Ravel(idx, sh) == RavelFrom(idx, sh, 1)
At(A, idx) == A.d[1 + Ravel(idx, A.sh)]
Mk(sh, f(_)) == [sh |-> sh, d |-> [k \in 1..Size(sh) |-> f(Unravel(k - 1, sh))]]
Max(a, b) == IF a >= b THEN a ELSE b
Min(a, b) == IF a <= b THEN a ELSE b
Abs(a) == IF a < 0 THEN 0 - a ELSE a
\* ---- broadcasting
PadL(sh, n) == [i \in 1..n |-> IF i <= n - Len(sh) THEN 1 ELSE sh[i - (n - Len(sh))]]
BShape(s1, s2) == LET n == Max(Len(s1), Len(s2))  a == PadL(s1, n)  b == PadL(s2, n) IN [i \in 1..n |-> IF a[i] = 1 THEN b[i] ELSE a[i]]
Compatible(s1, s2) == LET n == Max(Len(s1), Len(s2))  a == PadL(s1, n)  b == PadL(s2, n) IN \A i \in 1..n : a[i] = b[i] \/ a[i] = 1 \/ b[i] = 1
BIdx(idx, sh) == LET off == Len(idx) - Len(sh) IN [i \in 1..Len(sh) |-> IF sh[i] = 1 THEN 0 ELSE idx[i + off]]
Elem2(f(_, _), A, B) == Mk(BShape(A.sh, B.sh), LAMBDA idx : f(At(A, BIdx(idx, A.sh)), At(B, BIdx(idx, B.sh))))
Elem1(f(_), A) == [sh |-> A.sh, d |-> [k \in 1..Len(A.d) |-> f(A.d[k])]]
\* ---- reductions along one axis (0-based, negative counts from the end) or over all elements (axis = NoAxis)
NoAxis == -99
NormAxis(ax, n) == IF ax < 0 THEN ax + n ELSE ax
Without(s, i) == SubSeq(s, 1, i - 1) \o SubSeq(s, i + 1, Len(s))                  \* drop position i (1-based)
Insert(s, i, v) == SubSeq(s, 1, i - 1) \o <<v>> \o SubSeq(s, i, Len(s))            \* insert v at position i
RECURSIVE FoldSeq(_, _, _)
FoldSeq(f(_, _), unit, s) == IF s = <<>> THEN unit ELSE f(Head(s), FoldSeq(f, unit, Tail(s)))
Lane(A, idx, ax) == [j \in 1..A.sh[ax] |-> At(A, Insert(idx, ax, j - 1))]          \* the 1-D lane through idx along axis ax (1-based)
ReduceLane(g(_), A, axis) ==                                                       \* g maps a lane (sequence) to a value
  IF axis = NoAxis THEN [sh |-> <<>>, d |-> <<g(A.d)>>]
  ELSE LET ax == NormAxis(axis, Len(A.sh)) + 1 IN Mk(Without(A.sh, ax), LAMBDA idx : g(Lane(A, idx, ax)))
SumSeq(s) == FoldSeq(LAMBDA a, b : a + b, 0, s)
PrdSeq(s) == FoldSeq(LAMBDA a, b : a * b, 1, s)
AllSeq(s) == IF \A i \in 1..Len(s) : s[i] # 0 THEN 1 ELSE 0
AnySeq(s) == IF \E i \in 1..Len(s) : s[i] # 0 THEN 1 ELSE 0
MinSeq(s) == CHOOSE v \in {s[i] : i \in 1..Len(s)} : \A i \in 1..Len(s) : v <= s[i]
MaxSeq(s) == CHOOSE v \in {s[i] : i \in 1..Len(s)} : \A i \in 1..Len(s) : v >= s[i]
ArgMinSeq(s) == (CHOOSE i \in 1..Len(s) : s[i] = MinSeq(s) /\ \A j \in 1..(i - 1) : s[j] # MinSeq(s)) - 1     \* first occurrence
ArgMaxSeq(s) == (CHOOSE i \in 1..Len(s) : s[i] = MaxSeq(s) /\ \A j \in 1..(i - 1) : s[j] # MaxSeq(s)) - 1
\* ---- lane-wise maps that keep the shape (cumsum, sort, flip, roll)
MapLane(g(_), A, axis) ==
  LET ax == NormAxis(axis, Len(A.sh)) + 1 IN
  Mk(A.sh, LAMBDA idx : g(Lane(A, Without(idx, ax), ax))[idx[ax] + 1])
CumSum(s) == [i \in 1..Len(s) |-> SumSeq(SubSeq(s, 1, i))]
Sorted(s) == SortSeq(s, LAMBDA a, b : a < b)
RevSeq(s) == [i \in 1..Len(s) |-> s[Len(s) + 1 - i]]
RollSeq(s, k) == [i \in 1..Len(s) |-> s[((i - 1 - k) % Len(s)) + 1]]
Flat(A) == [sh |-> <<Len(A.d)>>, d |-> A.d]
\* ---- shape changes
Transpose(A) == LET rs == RevSeq(A.sh) IN Mk(rs, LAMBDA idx : At(A, RevSeq(idx)))
SwapAxes(A, a1, a2) == LET p == [i \in 1..Len(A.sh) |-> IF i = a1 + 1 THEN a2 + 1 ELSE IF i = a2 + 1 THEN a1 + 1 ELSE i]
                       IN Mk([i \in 1..Len(A.sh) |-> A.sh[p[i]]], LAMBDA idx : At(A, [i \in 1..Len(idx) |-> idx[p[i]]]))
Concat(A, B, axis) == LET ax == NormAxis(axis, Len(A.sh)) + 1  sh == [A.sh EXCEPT ![ax] = A.sh[ax] + B.sh[ax]] IN
                      Mk(sh, LAMBDA idx : IF idx[ax] < A.sh[ax] THEN At(A, idx) ELSE At(B, [idx EXCEPT ![ax] = idx[ax] - A.sh[ax]]))
Stack(A, B, axis) == LET ax == NormAxis(axis, Len(A.sh) + 1) + 1 IN
                     Mk(Insert(A.sh, ax, 2), LAMBDA idx : IF idx[ax] = 0 THEN At(A, Without(idx, ax)) ELSE At(B, Without(idx, ax)))
GetItem(A, i) == Mk(Tail(A.sh), LAMBDA idx : At(A, <<i>> \o idx))                 \* A[i], i >= 0
SliceA(A, lo, hi) == Mk(<<hi - lo>> \o Tail(A.sh), LAMBDA idx : At(A, <<idx[1] + lo>> \o Tail(idx)))   \* A[lo:hi]
\* ---- matmul for 1-D and 2-D operands, outer product
Dot(u, v) == SumSeq([i \in 1..Len(u) |-> u[i] * v[i]])
Row(A, i) == [j \in 1..A.sh[2] |-> At(A, <<i, j - 1>>)]
Col(A, j) == [i \in 1..A.sh[1] |-> At(A, <<i - 1, j>>)]
MatMul(A, B) == CASE Len(A.sh) = 1 /\ Len(B.sh) = 1 -> [sh |-> <<>>, d |-> <<Dot(A.d, B.d)>>]
                  [] Len(A.sh) = 2 /\ Len(B.sh) = 2 -> Mk(<<A.sh[1], B.sh[2]>>, LAMBDA idx : Dot(Row(A, idx[1]), Col(B, idx[2])))
                  [] Len(A.sh) = 2 /\ Len(B.sh) = 1 -> Mk(<<A.sh[1]>>, LAMBDA idx : Dot(Row(A, idx[1]), B.d))
                  [] Len(A.sh) = 1 /\ Len(B.sh) = 2 -> Mk(<<B.sh[2]>>, LAMBDA idx : Dot(A.d, Col(B, idx[1])))
Outer(A, B) == Mk(<<Len(A.d), Len(B.d)>>, LAMBDA idx : A.d[idx[1] + 1] * B.d[idx[2] + 1])
Where(C, A, B) == LET sh == BShape(BShape(C.sh, A.sh), B.sh) IN
                  Mk(sh, LAMBDA idx : IF At(C, BIdx(idx, C.sh)) # 0 THEN At(A, BIdx(idx, A.sh)) ELSE At(B, BIdx(idx, B.sh)))
B01(p) == IF p THEN 1 ELSE 0
Sgn(a) == IF a > 0 THEN 1 ELSE IF a < 0 THEN -1 ELSE 0
=======================================================================
