---------------------------- MODULE Stats ----------------------------
(* C34: mpyc.statistics on secure integers, by definition with the documented integer rounding, and on       *)
(* fixed-point numbers against an enclosure of Python's exact result.                                          *)
EXTENDS Integers, Sequences, FiniteSets, TLC, Json, IOUtils
RECURSIVE SumSeq(_)
SumSeq(s) == IF s = <<>> THEN 0 ELSE Head(s) + SumSeq(Tail(s))
Count(s, v) == Cardinality({i \in 1..Len(s) : s[i] = v})
RECURSIVE IndexFrom(_, _, _)
IndexFrom(s, v, i) == IF s[i] = v THEN i ELSE IndexFrom(s, v, i + 1)
DelAt(s, i) == SubSeq(s, 1, i - 1) \o SubSeq(s, i + 1, Len(s))
RECURSIVE Sorted(_)
Sorted(s) == IF s = <<>> THEN <<>> ELSE
             LET mn == CHOOSE x \in {s[i] : i \in 1..Len(s)} : \A j \in 1..Len(s) : x <= s[j]
             IN <<mn>> \o Sorted(DelAt(s, IndexFrom(s, mn, 1)))
RECURSIVE IsqrtFrom(_, _)
IsqrtFrom(x, y) == IF (y + 1) * (y + 1) > x THEN y ELSE IsqrtFrom(x, y + 1)
Isqrt(x) == IsqrtFrom(x, 0)
RoundDiv(a, n) == (a + n \div 2) \div n                      \* documented rounding: (a + n//2) // n
Mean(x) == RoundDiv(SumSeq(x), Len(x))
\* variance with correction c (1: sample, 0: population): sum (n x_i - s)^2 / (n^2 (n - c)), rounded
Var(x, c) == LET n == Len(x)  s == SumSeq(x)  d == n * n * (n - c)
                 ss == SumSeq([i \in 1..n |-> (n * x[i] - s) * (n * x[i] - s)])
             IN RoundDiv(ss, d)
Std(x, c) == Isqrt(Var(x, c))
Cov(x, y) == LET n == Len(x)  sx == SumSeq(x)  sy == SumSeq(y)  d == n * n * (n - 1)
                 sxy == SumSeq([i \in 1..n |-> (n * x[i] - sx) * (n * y[i] - sy)])
             IN RoundDiv(sxy, d)
MedianLow(x) == Sorted(x)[(Len(x) + 1) \div 2]
MedianHigh(x) == Sorted(x)[Len(x) \div 2 + 1]
Median(x) == IF Len(x) % 2 = 1 THEN MedianLow(x) ELSE (MedianLow(x) + MedianHigh(x)) \div 2
\* first encountered among the most common values (Python's statistics.mode)
Mode(x) == LET best == CHOOSE c \in {Count(x, x[i]) : i \in 1..Len(x)} : \A j \in 1..Len(x) : Count(x, x[j]) <= c
               first == CHOOSE i \in 1..Len(x) : Count(x, x[i]) = best /\ \A j \in 1..(i - 1) : Count(x, x[j]) < best
           IN x[first]
\* quantiles as in Python's statistics.quantiles, the interpolation term rounded to an integer
QuantIncl(x, n, i) == LET s == Sorted(x)  m == Len(x) - 1  j == (i * m) \div n  delta == (i * m) % n IN
                      IF delta = 0 THEN s[j + 1] ELSE s[j + 1] + RoundDiv((s[j + 2] - s[j + 1]) * delta, n)
QuantExcl(x, n, i) == LET s == Sorted(x)  ld == Len(x)  m == ld + 1  j0 == (i * m) \div n
                          j == IF j0 < 1 THEN 1 ELSE IF j0 > ld - 1 THEN ld - 1 ELSE j0
                          delta == i * m - j * n IN
                      IF delta = 0 THEN s[j] ELSE IF delta = n THEN s[j + 1]
                      ELSE s[j] + RoundDiv((s[j + 1] - s[j]) * delta, n)
Quantiles(x, n, incl) == [i \in 1..(n - 1) |-> IF incl THEN QuantIncl(x, n, i) ELSE QuantExcl(x, n, i)]
Evs == JsonDeserialize(IOEnv.TRACE_FILE)
VARIABLE k
TInit == k \in 1..Len(Evs)
TNext == UNCHANGED k
TSpec == TInit /\ [][TNext]_k
E == Evs[k]
SpecInt(e) ==
  CASE e.fn = "mean" -> <<Mean(e.x)>> [] e.fn = "median" -> <<Median(e.x)>>
    [] e.fn = "median_low" -> <<MedianLow(e.x)>> [] e.fn = "median_high" -> <<MedianHigh(e.x)>>
    [] e.fn = "mode" -> <<Mode(e.x)>>
    [] e.fn = "variance" -> <<Var(e.x, 1)>> [] e.fn = "pvariance" -> <<Var(e.x, 0)>>
    [] e.fn = "stdev" -> <<Std(e.x, 1)>> [] e.fn = "pstdev" -> <<Std(e.x, 0)>>
    [] e.fn = "covariance" -> <<Cov(e.x, e.y)>>
    [] e.fn = "quantiles" -> Quantiles(e.x, e.n, e.incl)
IntStatOK == E.kind = "int" => \A p \in 1..Len(E.res) : E.res[p] = SpecInt(E)
\* Python's own statistics module, evaluated on the same integers, agrees with the definitions above up to the
\* documented rounding: its exact rational result num/den rounds to the specified integer (oracle cross-check)
OracleOK == (E.kind = "int" /\ E.fn \in {"mean", "variance", "pvariance", "covariance"}) =>
              SpecInt(E)[1] = (2 * E.num + E.den) \div (2 * E.den)
\* fixed point: every opened result (scaled by 2^f) lies within tol units of the enclosure [lo, hi] of Python's result
FxpStatOK == E.kind = "fxp" => \A p \in 1..Len(E.res) : \A i \in 1..Len(E.res[p]) :
               E.res[p][i] >= E.lo[i] - E.tol /\ E.res[p][i] <= E.hi[i] + E.tol
=====================================================================
