---------------------------- MODULE Fields ----------------------------
(* Finite fields GF(P^D) from first principles.  Elements are the integers 0..Q-1 read in base P  *)
(* (digit i = coefficient of X^i), exactly int(a) of mpyc.finfields elements.  The field is       *)
(* GF(P)[X]/(X^D + MODC[D] X^(D-1) + ... + MODC[1]); for D = 1, MODC = <<0>> gives Z_P.            *)
EXTENDS Integers, Sequences, FiniteSets
CONSTANTS P, D, MODC
Q == P ^ D
Elems == 0..(Q - 1)
Dig(a, i) == (a \div (P ^ i)) % P
RECURSIVE AddFrom(_, _, _)
AddFrom(a, b, i) == IF i = D THEN 0 ELSE ((Dig(a, i) + Dig(b, i)) % P) * (P ^ i) + AddFrom(a, b, i + 1)
\* extension fields: operation tables are computed once from the definitions (constant-level), so that
\* protocol-level operators above stay shallow (deep lazy nesting overflowed TLC's evaluator stack)
\* (TLC evaluates constant definitions eagerly at start-up: no tables for prime fields)
AddTab == IF D = 1 THEN <<>> ELSE [a \in Elems |-> [b \in Elems |-> AddFrom(a, b, 0)]]
Add(a, b) == IF D = 1 THEN (a + b) % P ELSE AddTab[a][b]
RECURSIVE NegFrom(_, _)
NegFrom(a, i) == IF i = D THEN 0 ELSE ((P - Dig(a, i)) % P) * (P ^ i) + NegFrom(a, i + 1)
NegTab == IF D = 1 THEN <<>> ELSE [a \in Elems |-> NegFrom(a, 0)]
Neg(a) == IF D = 1 THEN (P - a) % P ELSE NegTab[a]
Sub(a, b) == Add(a, Neg(b))
RECURSIVE ScaleFrom(_, _, _)
ScaleFrom(a, c, i) == IF i = D THEN 0 ELSE ((Dig(a, i) * c) % P) * (P ^ i) + ScaleFrom(a, c, i + 1)
Scale(a, c) == ScaleFrom(a, c, 0)
RECURSIVE RedFrom(_, _)
RedFrom(top, i) == IF i = D THEN 0 ELSE ((P - ((top * MODC[i + 1]) % P)) % P) * (P ^ i) + RedFrom(top, i + 1)
\* multiplication by X modulo the field polynomial
MulX(a) == AddFrom((a % (P ^ (D - 1))) * P, RedFrom(Dig(a, D - 1), 0), 0)
RECURSIVE MulH(_, _, _)
MulH(a, b, i) == IF i = D THEN 0 ELSE AddFrom(MulX(MulH(a, b, i + 1)), Scale(a, Dig(b, i)), 0)
MulTab == IF D = 1 THEN <<>> ELSE [a \in Elems |-> [b \in Elems |-> MulH(a, b, 0)]]
Mul(a, b) == IF D = 1 THEN (a * b) % P ELSE MulTab[a][b]
InvTab == IF D = 1 THEN <<>> ELSE [a \in 1..(Q - 1) |-> CHOOSE y \in 1..(Q - 1) : Mul(a, y) = 1]
\* prime fields: Fermat inverse a^(P-2) by square-and-multiply (no table: P may be several hundred)
RECURSIVE PowP(_, _)
PowP(a, n) == IF n = 0 THEN 1
              ELSE LET h == PowP(a, n \div 2)  hh == (h * h) % P IN IF n % 2 = 1 THEN (hh * a) % P ELSE hh
Inv(a) == IF D = 1 THEN PowP(a, P - 2) ELSE InvTab[a]
Div(a, b) == Mul(a, Inv(b))
RECURSIVE Pow(_, _)
Pow(a, n) == IF n = 0 THEN 1                                   \* by squaring: evaluation depth log n
            ELSE LET h == Pow(a, n \div 2)  hh == Mul(h, h) IN IF n % 2 = 1 THEN Mul(hh, a) ELSE hh
\* embedding of an integer (mixing in integers = converting first): n mod P as a constant polynomial
\* for extension fields finfields converts an int by reading it base P
OfInt(n) == n % Q
IsSqr(a) == \E b \in Elems : Mul(b, b) = a
\* field axioms (sanity of this module for the configured constants)
\* (an operator with a parameter: TLC evaluates zero-arity constant definitions eagerly at start-up)
FieldAxiomsOn(E) ==
  /\ \A a, b \in E : Mul(a, b) = Mul(b, a) /\ Add(a, b) = Add(b, a) /\ Add(a, b) \in E /\ Mul(a, b) \in E
  /\ \A a \in E : Add(a, 0) = a /\ Mul(a, 1) = a /\ Add(a, Neg(a)) = 0
  /\ \A a \in E \ {0} : \E y \in E : Mul(a, y) = 1
  /\ \A a, b, c \in E : Mul(a, Add(b, c)) = Add(Mul(a, b), Mul(a, c))
  /\ \A a, b, c \in E : Mul(Mul(a, b), c) = Mul(a, Mul(b, c)) /\ Add(Add(a, b), c) = Add(a, Add(b, c))
=======================================================================
