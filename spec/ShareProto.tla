---------------------------- MODULE ShareProto ----------------------------
(* Share-level model of the core MPyC protocols (runtime.py): input dealing (_distribute, 440),     *)
(* local addition / BGW multiplication (mul, 1061), GRR resharing (_reshare, 604: a window of 2t+1    *)
(* dealers starting at uci), output (512: own share plus the th predecessors, shares sent only to     *)
(* successors that are receivers) and transfer (345).  Every dealing draws its own coefficient        *)
(* tuple; TLC enumerates all of them, all uci, all receiver sets and thresholds t..2t.                *)
EXTENDS Prss
CONSTANTS MaxOps,      \* bound on the number of protocol steps in a behaviour
          SecretsA, SecretsB
VARIABLES store,       \* name -> [sh : Party -> Elems, deg, val]
          msgs,        \* set of messages [op, src, dst, kind]
          outs,        \* set of [name, rcv, val]  (what a receiver obtained from an output)
          nops, lastout
vars == <<store, msgs, outs, nops, lastout>>
Names == {"a", "b", "c", "d"}
Sh(s, c) == [i \in Party |-> Split(s, c, NM)[i + 1]]
Upd(f, k, v) == (k :> v) @@ f
Init == store = <<>> /\ msgs = {} /\ outs = {} /\ nops = 0 /\ lastout = [name |-> "", R |-> {}, th |-> 0]

\* input of secret s by dealer i with coefficient tuple c: one message to every other party
Deal(n, i, s, c) ==
  /\ n \notin DOMAIN store /\ nops < MaxOps
  /\ store' = Upd(store, n, [sh |-> Sh(s, c), deg |-> NT, val |-> s])
  /\ msgs' = msgs \cup {[op |-> nops, src |-> i, dst |-> j, kind |-> "deal"] : j \in Party \ {i}}
  /\ nops' = nops + 1 /\ UNCHANGED <<outs, lastout>>
LocalAdd(n, x, y) ==
  /\ n \notin DOMAIN store /\ {x, y} \subseteq DOMAIN store /\ nops < MaxOps
  /\ store' = Upd(store, n, [sh |-> [i \in Party |-> Add(store[x].sh[i], store[y].sh[i])],
                             deg |-> IF store[x].deg > store[y].deg THEN store[x].deg ELSE store[y].deg,
                             val |-> Add(store[x].val, store[y].val)])
  /\ nops' = nops + 1 /\ UNCHANGED <<msgs, outs, lastout>>
LocalMul(n, x, y) ==
  /\ n \notin DOMAIN store /\ {x, y} \subseteq DOMAIN store /\ nops < MaxOps
  /\ store[x].deg + store[y].deg <= 2 * NT
  /\ store' = Upd(store, n, [sh |-> [i \in Party |-> Mul(store[x].sh[i], store[y].sh[i])],
                             deg |-> store[x].deg + store[y].deg,
                             val |-> Mul(store[x].val, store[y].val)])
  /\ nops' = nops + 1 /\ UNCHANGED <<msgs, outs, lastout>>
\* resharing: dealers (uci + j) % m, j = 0..2t, split their own share; everybody recombines the 2t+1
\* sub-shares it got (own sub-share included if it is a dealer) at 0
Dealers(uci) == {(uci + j) % NM : j \in 0..(2 * NT)}
Reshare(n, x, uci, cs) ==
  /\ n \notin DOMAIN store /\ x \in DOMAIN store /\ nops < MaxOps /\ NT >= 1
  /\ LET sub == [d \in Dealers(uci) |-> Sh(store[x].sh[d], cs[d])] IN
     store' = Upd(store, n, [sh |-> [i \in Party |-> Lagrange({<<OfInt(d + 1), sub[d][i]>> : d \in Dealers(uci)}, 0)],
                             deg |-> NT, val |-> store[x].val])
  /\ msgs' = msgs \cup {[op |-> nops, src |-> w[1], dst |-> w[2], kind |-> "deal"] :
                          w \in {w \in Dealers(uci) \X Party : w[1] # w[2]}}
  /\ nops' = nops + 1 /\ UNCHANGED <<outs, lastout>>
\* output of x to receivers R with threshold th (t <= th <= 2t, deg(x) <= th)
Preds(r, th) == {(r - th + j + NM) % NM : j \in 0..(th - 1)}
Output(x, R, th) ==
  /\ x \in DOMAIN store /\ nops < MaxOps /\ store[x].deg <= th /\ th + 1 <= NM
  /\ msgs' = msgs \cup {[op |-> nops, src |-> w[1], dst |-> w[2], kind |-> "share"] :
                          w \in {w \in Party \X R : (w[2] - w[1] + NM) % NM \in 1..th}}
  /\ outs' = outs \cup {[name |-> x, rcv |-> r,
                         val |-> Lagrange({<<OfInt(j + 1), store[x].sh[j]>> : j \in Preds(r, th) \cup {r}}, 0)] : r \in R}
  /\ lastout' = [name |-> x, R |-> R, th |-> th]
  /\ nops' = nops + 1 /\ UNCHANGED store

\* a fixed pipeline (the shape of  output(reshare(a op b))  and  output(a op b, threshold 2t)):
\* step 0: a dealt by party 0; step 1: b dealt by party NM-1; step 2: c = a + b or a * b;
\* step 3: d = reshare(c) for every uci and coefficient tuples; step 4: output of c or d
Next == \/ (nops = 0 /\ \E s \in SecretsA, c \in Coefs(NT) : Deal("a", 0, s, c))
        \/ (nops = 1 /\ \E s \in SecretsB, c \in Coefs(NT) : Deal("b", NM - 1, s, c))
        \/ (nops = 2 /\ (LocalAdd("c", "a", "b") \/ LocalMul("c", "a", "b")))
        \/ (nops = 3 /\ \E uci \in Party, cs \in [Party -> Coefs(NT)] : Reshare("d", "c", uci, cs))
        \/ (nops \in {3, 4} /\ lastout.name = "" /\ \E x \in {"c", "d"}, R \in SUBSET Party, th \in NT..(2 * NT) : Output(x, R, th))
Spec == Init /\ [][Next]_vars
---------------------------------------------------------------------
\* C11: at every point, the shares of every value lie on a polynomial of its degree bound with the value
\* as constant term (degree t after dealing and resharing, at most 2t after a local multiplication)
Consistent == \A n \in DOMAIN store : OnPoly(store[n].sh, store[n].deg, store[n].val)
\* C01/C07: every receiver of an output obtains the value; all receivers agree
OutputsRight == \A o \in outs : o.val = store[o.name].val
\* C19: an output sends shares only to receivers (and only from their th predecessors)
OnlyReceiversHear == \A mm \in msgs : (mm.kind = "share" /\ mm.op = nops - 1 /\ lastout.name # "") =>
                        mm.dst \in lastout.R /\ mm.src \in Preds(mm.dst, lastout.th)
\* C14: every dealing message is a share of a fresh degree-t sharing (by construction of Deal/Reshare:
\* their parameters range over all coefficient tuples); the secret never travels: a "deal" message from i to j
\* carries f(j+1) of a polynomial with t uniformly random coefficients (Shamir.ViewUniform)
NoSelfMessages == \A mm \in msgs : mm.src # mm.dst
==========================================================================
