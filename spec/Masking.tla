---------------------------- MODULE Masking ----------------------------
(* C18: what the protocols of mpyc.runtime open, as a function of the secret a and of the random mask.          *)
(* Secrets are L-bit signed integers, K is the security parameter, D the slack of the bounded random numbers     *)
(* (a bounded random is a sum of contributions; the one contribution a coalition does not know is uniform on an   *)
(* interval that is up to D = 2 * (number of contributions) times shorter than the requested bound).              *)
(* View(proto, a, mask) transcribes the opened values of: trunc (runtime.py:824), sgn incl. the public zero test  *)
(* of the comparison (1521-1545), lsb (1790), _mod (1857), to_bits (4375), is_zero_public (880).                   *)
(* The property: for any two secrets the views have statistical distance at most D / 2^K.                          *)
EXTENDS Integers, Sequences, FiniteSets, TLC
CONSTANTS L, K, F, B, D, P, MODBOUND      \* F: bits truncated; B: public modulus of _mod; P: a prime for is_zero_public; MODBOUND: bound of r_divb
Secrets == (0 - 2 ^ (L - 1))..(2 ^ (L - 1) - 1)
Bit(x, i) == (x \div (2 ^ i)) % 2
\* ---- mask spaces (the part a coalition of at most t parties does not know) and views
TruncMasks == (0..(2 ^ F - 1)) \X (0..((2 ^ (K + L - F)) \div D - 1))
TruncView(a, m) == a + 2 ^ (L - 1) + m[1] + (2 ^ F) * m[2]
LsbMasks == (0..1) \X (0..((2 ^ (L + K - 1)) \div D - 1))
LsbView(a, m) == a + 2 ^ L + 2 * m[2] + m[1]
ToBitsMasks == (0..(2 ^ L - 1)) \X (0..((2 ^ K) \div D - 1))
ToBitsView(a, m) == a + 2 ^ L + (2 ^ L) * m[2] - m[1]
ModMasks == (0..(B - 1)) \X (0..(MODBOUND \div D - 1))
ModView(a, m) == a + 2 ^ L - ((2 ^ L) % B) + B * m[2] - m[1]
\* convert: x + 2^(L-1) + (sum of bounded randoms)
ConvMasks == 0..((2 ^ (K + L)) \div D - 1)
ConvView(a, m) == a + 2 ^ (L - 1) + m
\* sgn with LT: opened c, then the public zero test of prod(e) (only whether it is zero is a function of the secrets; its
\* nonzero value is blinded multiplicatively, see ZeroView)
SgnMasks == (0..(2 ^ L - 1)) \X (0..((2 ^ K) \div D - 1)) \X {-1, 1}
RECURSIVE SumXors(_, _, _)
SumXors(c, r, i) == IF i >= L THEN 0 ELSE (IF Bit(c, i) = 1 THEN 1 - Bit(r, i) ELSE Bit(r, i)) + SumXors(c, r, i + 1)    \* over positions i..L-1
SgnE(c, r, s, i) == IF i = L THEN s - 1 + 3 * SumXors(c, r, 0) ELSE s + Bit(r, i) - Bit(c, i) + 3 * SumXors(c, r, i + 1)
SgnView(a, m) == LET full == a + 2 ^ L + m[1] + (2 ^ L) * m[2]
                     c == full % (2 ^ L)
                     g == \E i \in 0..L : SgnE(c, m[1], m[3], i) = 0
                 IN <<full, g>>
\* is_zero_public: a * r mod P for uniform nonzero r (a # 0), 0 for a = 0
ZeroMasks == 1..(P - 1)
ZeroView(a, m) == (a * m) % P
\* ---- statistical distance of the views of two secrets, exactly: sum over views of |#masks(a) - #masks(a')| / (2 #masks)
\* (the views of a secret are tabulated once per secret: T[m] = V(a, m))
Tab(V(_, _), M, a) == [m \in M |-> V(a, m)]
CountT(T, M, v) == Cardinality({m \in M : T[m] = v})
RECURSIVE SumAbsT(_, _, _, _)
SumAbsT(T1, T2, M, vs) == IF vs = {} THEN 0 ELSE LET v == CHOOSE x \in vs : TRUE  d == CountT(T1, M, v) - CountT(T2, M, v)
                            IN (IF d < 0 THEN 0 - d ELSE d) + SumAbsT(T1, T2, M, vs \ {v})
SD2M(V(_, _), M, a1, a2) == LET T1 == Tab(V, M, a1)  T2 == Tab(V, M, a2)                    \* = 2 * #M * SD
                            IN SumAbsT(T1, T2, M, {T1[m] : m \in M} \cup {T2[m] : m \in M})
=======================================================================
