---------------------------- MODULE Config ----------------------------
(* C39: resolution of SecFld(order, char, ext_deg, min_order), lifting of small fields, threshold check of     *)
(* setup();  C26: postconditions of finfields.find_prime_root and of the prime fields of secure number types.   *)
EXTENDS Integers, Sequences, FiniteSets, TLC, Json, IOUtils
RECURSIVE NoDivisorFrom(_, _)
NoDivisorFrom(x, d) == IF d * d > x THEN TRUE ELSE IF x % d = 0 THEN FALSE ELSE NoDivisorFrom(x, d + 2)
\* (a bounded quantifier instead of the linear recursion NoDivisorFrom, which defines the same predicate: TLC's evaluation stack
\*  stays shallow also for 29-bit primes; 46340^2 < 2^31)
DivBound(x) == IF x < 40000 THEN 200 ELSE IF x < 4000000 THEN 2000 ELSE 46340
IsPrime(x) == x = 2 \/ (x >= 3 /\ x % 2 = 1 /\ \A d \in 3..DivBound(x) : d * d > x \/ x % d # 0)
RECURSIVE BitLen(_)
BitLen(x) == IF x = 0 THEN 0 ELSE 1 + BitLen(x \div 2)
\* overflow-free modular arithmetic for moduli below 2^30 (TLC integers are 32-bit)
RECURSIVE MulMod(_, _, _)
MulMod(a, b, p) == IF b = 0 THEN 0
                   ELSE LET h == MulMod(a, b \div 2, p)  d == (h + h) % p IN IF b % 2 = 1 THEN (d + a) % p ELSE d
RECURSIVE PowMod(_, _, _)
PowMod(a, e, p) == IF e = 0 THEN 1 % p
                   ELSE LET h == PowMod(a, e \div 2, p)  hh == MulMod(h, h, p) IN IF e % 2 = 1 THEN MulMod(hh, a % p, p) ELSE hh
RECURSIVE PowI(_, _)
PowI(b, e) == IF e = 0 THEN 1 ELSE b * PowI(b, e - 1)
RECURSIVE OnlyP(_, _)
OnlyP(x, p) == x = 1 \/ (x % p = 0 /\ OnlyP(x \div p, p))
RECURSIVE LeastFactorFrom(_, _)
LeastFactorFrom(x, d) == IF d * d > x THEN x ELSE IF x % d = 0 THEN d ELSE LeastFactorFrom(x, d + 1)
LeastFactor(x) == IF \E d \in 2..DivBound(x) : d * d <= x /\ x % d = 0
                  THEN CHOOSE d \in 2..DivBound(x) : d * d <= x /\ x % d = 0 /\ \A c \in 2..(d - 1) : x % c # 0
                  ELSE x
IsPrimePower(x) == x >= 2 /\ OnlyP(x, LeastFactor(x))
RECURSIVE LogP(_, _)
LogP(x, p) == IF x = 1 THEN 0 ELSE 1 + LogP(x \div p, p)
Evs == JsonDeserialize(IOEnv.TRACE_FILE)
VARIABLE k
TInit == k \in 1..Len(Evs)
TNext == UNCHANGED k
TSpec == TInit /\ [][TNext]_k
E == Evs[k]
\* ---- C39: SecFld argument resolution (0 encodes "not given"); a field GF(p^d) satisfies the request iff ...
Satisfies(e, p, d) == /\ IsPrime(p) /\ d >= 1
                      /\ (e.order # 0 => PowI(p, d) = e.order)
                      /\ (e.char # 0 => p = e.char)
                      /\ (e.ext_deg # 0 => d = e.ext_deg)
                      /\ (e.min_order # 0 => PowI(p, d) >= e.min_order)
\* the request is satisfiable (orders in the experiments stay below 2^12, so candidates p <= 4096, d <= 12 suffice)
Satisfiable(e) ==
  IF e.order # 0 THEN IsPrimePower(e.order) /\ LET p == LeastFactorFrom(e.order, 2) IN Satisfies(e, p, LogP(e.order, p))
  ELSE IF e.char # 0 THEN IsPrime(e.char) /\ (\E d \in 1..12 : (e.char = 2 \/ d <= 7) /\ PowI(e.char, d) < 4096 * 64 /\ Satisfies(e, e.char, d))
  ELSE TRUE            \* some prime (power) above min_order always exists
SecFldOK == E.kind = "secfld" =>
              /\ (E.acc <=> Satisfiable(E))
              /\ (E.acc => Satisfies(E, E.rchar, E.rdeg) /\ E.rorder = PowI(E.rchar, E.rdeg))
\* lifting: with t > 0 the sharing field has more elements than parties and is an extension of the requested field;
\* outputs are elements of the requested field
LiftOK == (E.kind = "secfld" /\ E.acc) =>
              /\ (E.t > 0 => E.forder > E.m)
              /\ OnlyP(E.forder, E.rchar) /\ E.forder >= E.rorder
              /\ ((E.t = 0 \/ E.m < E.rorder) => E.forder = E.rorder)
              /\ E.outorder = E.rorder
\* setup(): -M m -T t accepted iff 2 t < m; default threshold (m - 1) div 2
SetupOK == E.kind = "setup" =>
              IF E.t >= 0 THEN (E.acc <=> 2 * E.t < E.m) /\ (E.acc => E.rt = E.t)
              ELSE E.acc /\ E.rt = (E.m - 1) \div 2
\* every secure type's field has more elements than there are parties whenever t > 0 (order clipped at 2^30)
TypeFieldOK == E.kind = "sectype" => (E.t > 0 => E.forder > E.m)
\* ---- C26 ----
\* find_prime_root(l, blum, n) = (p, n', w)
PrimeRootOK == E.kind = "primeroot" =>
              /\ IsPrime(E.p)
              /\ BitLen(E.p) >= E.l /\ (E.n <= 2 => BitLen(E.p) = E.l)
              /\ (E.blum => E.p % 4 = 3)
              /\ E.rn = E.n                                         \* n prime (or 1, 2) is kept
              /\ E.w > 0 /\ E.w < E.p
              /\ PowMod(E.w, E.n, E.p) = 1                          \* order divides n ...
              /\ (E.n > 1 => E.w # 1)                                \* ... and, n being prime, equals n
              /\ (E.n = 1 => E.w = 1)
\* secure integer / fixed-point types: prime field larger than 2^(l+f+k+1) and larger than the number of parties
NumFieldOK == E.kind = "numtype" =>
              /\ IsPrime(E.p) /\ E.p > PowI(2, E.l + E.f + E.k + 1) /\ E.p > E.m
              /\ (E.blum => E.p % 4 = 3)
=======================================================================
