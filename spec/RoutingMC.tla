---------------------------- MODULE RoutingMC ----------------------------
(* Design check of Routing.tla: every senders/receivers pair and every dict graph for NP parties. *)
EXTENDS Routing
CONSTANT NP                       \* number of parties of the design check
Party == 0..(NP - 1)
\* ascending sequences of all subsets (and one descending order for the full set) as senders / receivers
RECURSIVE AscSeq(_)
AscSeq(S) == IF S = {} THEN <<>> ELSE LET mn == CHOOSE x \in S : \A y \in S : x <= y IN <<mn>> \o AscSeq(S \ {mn})
Rev(s) == [k \in 1..Len(s) |-> s[Len(s) + 1 - k]]
SeqChoices == {AscSeq(S) : S \in SUBSET Party} \cup {Rev(AscSeq(Party))}
VARIABLE gcase
GInit == gcase \in [form : {"sr"}, S : SeqChoices, R : SeqChoices, dct : {<<>>}] \cup
                   [form : {"dict"}, S : {<<>>}, R : {<<>>},
                    dct : {[k \in 1..Len(ks) |-> <<ks[k], vs[k]>>] : ks \in SeqChoices, vs \in [1..NP -> SeqChoices]}]
GNext == UNCHANGED gcase
GSpec == GInit /\ [][GNext]_gcase
CaseArcs == IF gcase.form = "sr" THEN ArcsSR(gcase.S, gcase.R) ELSE ArcsDict(gcase.dct)
MyS(i) == IF gcase.form = "sr" THEN MySendersSR(gcase.S, gcase.R, i) ELSE DictSenders(gcase.dct, i)
MyR(i) == IF gcase.form = "sr" THEN MyReceiversSR(gcase.S, gcase.R, i) ELSE DictGet(gcase.dct, i)
\* C07 (design): each party's local view agrees with the graph, so sends and receives match pairwise
ViewsMatchGraph == \A i \in Party : MyS(i) = Incoming(CaseArcs, i) /\ MyR(i) = Outgoing(CaseArcs, i)
Matched == \A i, j \in Party : (j \in SeqToSet(MyR(i))) <=> (i \in SeqToSet(MyS(j)))
==========================================================================
