---------------------------- MODULE SharesTrace ----------------------------
(* God view of real runs: for every secure value alive at the end of an operation, the shares held  *)
(* by the m parties (read with mpc.gather) and the opened value.  C11: they lie on one polynomial of *)
(* degree <= t with the value as constant term.  C14: every dealing call used threshold t, drew      *)
(* exactly t coefficients per secret, each over the whole field.                                     *)
EXTENDS Prss, Json, IOUtils
Evs == JsonDeserialize(IOEnv.TRACE_FILE)
VARIABLE k
TInit == k \in 1..Len(Evs)
TNext == UNCHANGED k
TSpec == TInit /\ [][TNext]_k
SharesOK == LET e == Evs[k] IN e.kind = "shares" =>
              OnPoly([i \in Party |-> e.shares[i + 1]], NT, e.val)
\* a value known to be of higher degree must not pass (self-test of the oracle on harness-made data)
DealOK == LET e == Evs[k] IN e.kind = "deal" =>
              /\ e.t = NT /\ e.m = NM
              /\ Len(e.bounds) = NT * e.n
              /\ \A j \in 1..Len(e.bounds) : e.bounds[j] = e.order
              /\ (NT >= 1 => e.leak = 0)
=============================================================================
