---------------------------- MODULE PCSched ----------------------------
(* MPyC coroutines, program counters, pc-keyed message buffers and barriers                         *)
(* (asyncoro.py:276-464 mpc_coro / _ProgramCounterWrapper / _reconcile, runtime.py:154-172).        *)
(*                                                                                                  *)
(* A small interpreter: Prog(f) is the instruction sequence of coroutine f.  Every party runs the   *)
(* same program MainName.  A program counter is symbolic: <<path, off, depth>>; a fork             *)
(* (_ProgramCounterWrapper.__init__) increments the parent's off and gives the child               *)
(* <<path \o <<off>>, 0, depth+1>> -- i.e. _hop is an uninterpreted injective function, the only     *)
(* assumption made about the hash.  Coroutines declared with mpc_coro_no_pc have no counter of      *)
(* their own and use the ambient one (whatever is installed when they run: the depth-0 counter).    *)
(* Any runnable task may take the next step (a superset of asyncio's FIFO order); _reconcile is a   *)
(* separate step (it runs as a done-callback in a later loop iteration); frames travel FIFO per     *)
(* directed connection and are delivered in any interleaving across connections.                    *)
EXTENDS Naturals, Sequences, FiniteSets, TLC
CONSTANTS M, T, MainName
Party == 0..M-1
Call(f, w, args, r) == [op |-> "call", f |-> f, w |-> w, args |-> args, r |-> r]
Send(d)    == [op |-> "send", d |-> d]
Recv(s, r) == [op |-> "recv", s |-> s, r |-> r]
Await(vs)  == [op |-> "await", vs |-> vs]
Uci        == [op |-> "uci"]
Barrier    == [op |-> "barrier"]
Ret(v)     == [op |-> "ret", v |-> v]

\* ---- program corpus (mirrors of real programs in harness/programs.py and of runtime.py) ----
\* every real program ends with Runtime.shutdown(): wait until _pc_level <= depth (a depth-0 barrier),
\* synchronise with all parties through transfer(), then close the connections
ShutdownSeq == << Barrier, Call("xfer", TRUE, <<>>, "sd"), Await({"sd"}), Ret("none") >>
Body(f) ==
  CASE f = "main_out"  -> << Call("inp", TRUE, <<>>, "a"), Call("out", TRUE, <<"a">>, "o"), Await({"o"}) >>
    [] f = "main_mul2" -> << Call("inp", TRUE, <<>>, "a"), Call("mul", TRUE, <<"a", "a">>, "x"),
                             Call("add", FALSE, <<"x", "a">>, "z"), Call("mul", TRUE, <<"z", "a">>, "y"),
                             Call("out", TRUE, <<"y">>, "o"), Await({"o"}), Barrier >>
    \* PRSS: _prss_uci increments the counter between forks (random_bits -> _randoms)
    [] f = "main_prss" -> << Call("inp", TRUE, <<>>, "a"), Call("rbits", TRUE, <<>>, "b"),
                             Call("mul", TRUE, <<"a", "b">>, "x"), Call("out", TRUE, <<"x">>, "o"),
                             Await({"o"}) >>
    \* top-level awaits one of two independent results, then forks again
    [] f = "main_await" -> << Call("inp", TRUE, <<>>, "a"), Call("mul", TRUE, <<"a", "a">>, "x"),
                              Call("out", TRUE, <<"a">>, "o1"), Await({"o1"}),
                              Call("mul", TRUE, <<"x", "a">>, "y"), Call("out", TRUE, <<"y">>, "o2"),
                              Await({"o2"}) >>
    \* nothing awaited before shutdown: the shutdown barrier alone must wait for the pipeline
    [] f = "main_noawait" -> << Call("inp", TRUE, <<>>, "a"), Call("mul", TRUE, <<"a", "a">>, "x"),
                                Call("out", TRUE, <<"x">>, "o") >>
    \* conversion: nested inputs inside a wrapped coroutine
    [] f = "main_conv" -> << Call("inp", TRUE, <<>>, "a"), Call("conv", TRUE, <<"a">>, "c"),
                             Call("out", TRUE, <<"c">>, "o"), Await({"o"}) >>
    \* negative control: a no-pc coroutine that forks after a real suspension
    [] f = "main_bad"  -> << Call("inp", TRUE, <<>>, "a"), Call("badmod", FALSE, <<"a", "a">>, "x"),
                             Call("inp", TRUE, <<>>, "b"),
                             Await({"a"}), Call("out", TRUE, <<"x">>, "o"), Await({"o", "b"}) >>
IsMain(f) == f \in {"main_out", "main_mul2", "main_prss", "main_await", "main_noawait", "main_conv", "main_bad"}
Prog(f) ==
  IF IsMain(f) THEN Body(f) \o ShutdownSeq ELSE
  CASE f = "inp"    -> << Send("all"), Recv("all", "s"), Await({"s"}), Ret("none") >>
    [] f = "mul"    -> << Await({"arg1", "arg2"}), Call("rs", TRUE, <<>>, "c"), Ret("c") >>
    [] f = "add"    -> << Await({"arg1", "arg2"}), Ret("none") >>
    [] f = "badmod" -> << Await({"arg1", "arg2"}), Call("rs", TRUE, <<>>, "c"), Ret("c") >>
    [] f = "rs"     -> << Send("all"), Recv("all", "s"), Await({"s"}), Ret("none") >>
    [] f = "out"    -> << Await({"arg1"}), Send("succ"), Recv("pred", "s"), Await({"s"}), Ret("none") >>
    [] f = "xfer"   -> << Send("all"), Recv("all", "s"), Await({"s"}), Ret("none") >>
    [] f = "rbits"  -> << Uci, Uci, Call("sq", TRUE, <<>>, "q"), Await({"q"}), Ret("none") >>
    [] f = "sq"     -> << Send("succ"), Recv("pred", "s"), Await({"s"}), Ret("none") >>
    [] f = "conv"   -> << Await({"arg1"}), Call("inp", TRUE, <<>>, "r1"), Call("inp", TRUE, <<>>, "r2"),
                          Call("out", TRUE, <<"r1">>, "c"), Await({"c", "r2"}), Ret("none") >>
Dsts(i, d) == IF d = "all" THEN Party \ {i} ELSE {(i + j) % M : j \in 1..T}
Srcs(i, s) == IF s = "all" THEN Party \ {i} ELSE {(i + M - j) % M : j \in 1..T}

VARIABLES ps,    \* per party: tasks, ambient pc, level (_pc_level), futures, buffers, label log
          wire   \* per directed connection: FIFO of labels in flight
vars == <<ps, wire>>
Conn == {c \in Party \X Party : c[1] # c[2]}
ArgName(k) == IF k = 1 THEN "arg1" ELSE "arg2"
AmbPc == [own |-> FALSE, path |-> <<>>, off |-> 0, depth |-> 0]
NewTask(f, pc, env) == [f |-> f, ip |-> 1, pc |-> pc, env |-> env, st |-> "run", nc |-> 0]
InitPS == [ tasks |-> (<<>> :> NewTask(MainName, AmbPc, <<>>)),
            amb |-> [own |-> TRUE, path |-> <<>>, off |-> 0, depth |-> 0],
            level |-> 0, done |-> {}, fwd |-> <<>>, pend |-> <<>>,
            buf |-> [j \in Party |-> {}], waiting |-> [j \in Party |-> <<>>],
            sent |-> <<>>, sentto |-> [j \in Party |-> {}], rcvd |-> [j \in Party |-> {}], dup |-> FALSE, out |-> <<>> ]
Init == ps = [i \in Party |-> InitPS] /\ wire = [c \in Conn |-> <<>>]

RECURSIVE IsDone(_, _)
IsDone(s, fut) == fut \in s.done \/ (fut \in DOMAIN s.fwd /\ IsDone(s, s.fwd[fut]))
FutOf(tid, t, v) == IF v \in DOMAIN t.env THEN t.env[v] ELSE <<tid, v>>
CurPc(s, t) == IF ~t.pc.own THEN s.amb ELSE t.pc
SetPc(s, tid, t, pc) == IF ~t.pc.own THEN <<[s EXCEPT !.amb = pc], t>> ELSE <<s, [t EXCEPT !.pc = pc]>>
Label(pc) == <<pc.path, pc.off>>
Upd(f, k, v) == (k :> v) @@ f
Log(s, tid, lab) == [s EXCEPT !.sent = Upd(@, tid, (IF tid \in DOMAIN @ THEN @[tid] ELSE <<>>) \o <<lab>>)]

Blocked(s, tid) ==
  LET t == s.tasks[tid]  ins == Prog(t.f)[t.ip] IN
    \/ t.st # "run"
    \/ (ins.op = "await" /\ \E v \in ins.vs : ~IsDone(s, FutOf(tid, t, v)))
    \/ (ins.op = "barrier" /\ s.level > CurPc(s, t).depth)

\* run task tid of party i until it blocks or returns
RECURSIVE Run(_, _, _)
Run(i, tid, s) ==
  IF Blocked(s, tid) THEN s ELSE
  LET t == s.tasks[tid]  ins == Prog(t.f)[t.ip]  cur == CurPc(s, t) IN
  CASE ins.op \in {"await", "barrier"} -> Run(i, tid, [s EXCEPT !.tasks[tid].ip = @ + 1])
    [] ins.op = "uci" ->
         LET r == SetPc(s, tid, t, [cur EXCEPT !.off = @ + 1]) IN
         Run(i, tid, [r[1] EXCEPT !.tasks = Upd(@, tid, [r[2] EXCEPT !.ip = @ + 1])])
    [] ins.op = "call" ->
         LET k == t.nc + 1
             ctid == Append(tid, k)
             cur2 == IF ins.w THEN [cur EXCEPT !.off = @ + 1] ELSE cur
             cpc == IF ins.w THEN [own |-> TRUE, path |-> Append(cur2.path, cur2.off), off |-> 0,
                                   depth |-> cur2.depth + 1]
                    ELSE AmbPc
             cenv == [a \in {ArgName(n) : n \in 1..Len(ins.args)} |->
                        FutOf(tid, t, ins.args[IF a = "arg1" THEN 1 ELSE 2])]
             r == SetPc(s, tid, t, cur2)
             t2 == [r[2] EXCEPT !.ip = @ + 1, !.nc = k]
             s2 == [r[1] EXCEPT !.tasks = Upd(Upd(@, tid, t2), ctid, NewTask(ins.f, cpc, cenv)),
                                !.level = @ + 1]
         IN Run(i, tid, s2)
    [] ins.op = "send" ->
         LET lab == Label(cur)
             s2 == [Log(s, tid, lab) EXCEPT !.tasks[tid].ip = @ + 1]
         IN Run(i, tid, [s2 EXCEPT !.out = @ @@ [x \in {<<tid, t.ip, d>> : d \in Dsts(i, ins.d)} |-> lab],
                                   !.dup = @ \/ (\E j \in Dsts(i, ins.d) : lab \in s.sentto[j]),
                                   !.sentto = [j \in Party |-> IF j \in Dsts(i, ins.d) THEN @[j] \cup {lab} ELSE @[j]]])
    [] ins.op = "recv" ->
         LET lab == Label(cur)  fut == <<tid, ins.r>>  srcs == Srcs(i, ins.s)
             have == {j \in srcs : lab \in s.buf[j]}  need == srcs \ have
             s2 == [Log(s, tid, lab) EXCEPT
                      !.buf = [j \in Party |-> IF j \in have THEN @[j] \ {lab} ELSE @[j]],
                      !.waiting = [j \in Party |-> IF j \in need THEN Upd(@[j], lab, fut) ELSE @[j]],
                      !.pend = Upd(@, fut, need),
                      !.done = IF need = {} THEN @ \cup {fut} ELSE @,
                      !.dup = @ \/ (\E j \in srcs : lab \in s.rcvd[j]),
                      !.rcvd = [j \in Party |-> IF j \in srcs THEN @[j] \cup {lab} ELSE @[j]],
                      !.tasks[tid].ip = @ + 1]
         IN Run(i, tid, s2)
    [] ins.op = "ret" -> [s EXCEPT !.tasks[tid].st = "done"]

Runnable(i, tid) == tid \in DOMAIN ps[i].tasks /\ ~Blocked(ps[i], tid)
RECURSIVE Seqz(_, _)
Seqz(out, S) == IF S = {} THEN <<>> ELSE
                LET mn == CHOOSE k \in S : \A k2 \in S : k[2] <= k2[2] IN <<out[mn]>> \o Seqz(out, S \ {mn})

Step(i, tid) ==
  /\ Runnable(i, tid)
  /\ LET s2 == Run(i, tid, [ps[i] EXCEPT !.out = <<>>]) IN
     /\ ps' = [ps EXCEPT ![i] = [s2 EXCEPT !.out = <<>>]]
     /\ wire' = [c \in Conn |-> IF c[1] = i
                                THEN wire[c] \o Seqz(s2.out, {k \in DOMAIN s2.out : k[3] = c[2]})
                                ELSE wire[c]]

RECURSIVE Nth(_, _)
Nth(S, k) == LET mn == CHOOSE x \in S : \A y \in S : x <= y IN IF k = 1 THEN mn ELSE Nth(S \ {mn}, k - 1)
\* done-callback of a finished task: level -= 1, placeholder resolved (or forwarded to a pending future)
Reconcile(i, tid) ==
  /\ tid \in DOMAIN ps[i].tasks /\ ps[i].tasks[tid].st = "done" /\ tid # <<>>
  /\ LET s == ps[i]  t == s.tasks[tid]
         ptid == SubSeq(tid, 1, Len(tid) - 1)
         pt == s.tasks[ptid]
         calls == {n \in 1..Len(Prog(pt.f)) : Prog(pt.f)[n].op = "call"}
         cins == Prog(pt.f)[Nth(calls, tid[Len(tid)])]
         place == <<ptid, cins.r>>
         rv == Prog(t.f)[t.ip].v
     IN ps' = [ps EXCEPT ![i] = [s EXCEPT !.tasks[tid].st = "rec", !.level = @ - 1,
                                          !.done = IF rv = "none" THEN @ \cup {place} ELSE @,
                                          !.fwd = IF rv = "none" THEN @ ELSE Upd(@, place, FutOf(tid, t, rv))]]
  /\ UNCHANGED wire

\* head frame of connection j -> i is parsed by i's data_received
Deliver(j, i) ==
  /\ wire[<<j, i>>] # <<>>
  /\ LET lab == Head(wire[<<j, i>>])  s == ps[i] IN
     /\ wire' = [wire EXCEPT ![<<j, i>>] = Tail(@)]
     /\ IF lab \in DOMAIN s.waiting[j]
        THEN LET fut == s.waiting[j][lab]  rem == s.pend[fut] \ {j} IN
             ps' = [ps EXCEPT ![i] = [s EXCEPT !.waiting[j] = [x \in DOMAIN @ \ {lab} |-> @[x]],
                                              !.pend[fut] = rem,
                                              !.done = IF rem = {} THEN @ \cup {fut} ELSE @]]
        ELSE ps' = [ps EXCEPT ![i] = [s EXCEPT !.buf[j] = @ \cup {lab},
                                                !.dup = @ \/ lab \in s.buf[j]]]

MainDone(i) == ps[i].tasks[<<>>].st = "done"
AllDone == \A i \in Party : MainDone(i) /\ \A tid \in DOMAIN ps[i].tasks : tid = <<>> \/ ps[i].tasks[tid].st = "rec"
PartyNext(i) == \E tid \in DOMAIN ps[i].tasks : Step(i, tid) \/ Reconcile(i, tid)
Next == \/ \E i \in Party : PartyNext(i)
        \/ \E c \in Conn : Deliver(c[1], c[2])
        \/ (AllDone /\ UNCHANGED vars)
Spec == Init /\ [][Next]_vars
FairSpec == Spec /\ (\A i \in Party : WF_vars(PartyNext(i))) /\ (\A c \in Conn : WF_vars(Deliver(c[1], c[2])))

---------------------------------------------------------------------
IsPrefixOrEq(a, b) == Len(a) <= Len(b) /\ SubSeq(b, 1, Len(a)) = a
\* C08 (ExpectedLabel, cross-party form): the labels a coroutine (identified by its static call path)
\* uses are the same on every party whatever the interleaving
LabelAgreement == \A i, j \in Party : \A tid \in DOMAIN ps[i].sent \cap DOMAIN ps[j].sent :
                     IsPrefixOrEq(ps[i].sent[tid], ps[j].sent[tid]) \/ IsPrefixOrEq(ps[j].sent[tid], ps[i].sent[tid])
\* C09: no two coroutines of a party use the same label
UniqueLabels == \A i \in Party : \A t1, t2 \in DOMAIN ps[i].sent :
                   t1 # t2 => \A a \in 1..Len(ps[i].sent[t1]) : \A b \in 1..Len(ps[i].sent[t2]) :
                                 ps[i].sent[t1][a] # ps[i].sent[t2][b]
\* C09: no label is received twice from one peer and no frame overwrites a buffered one
ConsumedOnce == \A i \in Party : ~ps[i].dup
\* C35: when the main coroutine passed its depth-0 barrier and finished, every coroutine is reconciled
BarrierSound == \A i \in Party : MainDone(i) => \A tid \in DOMAIN ps[i].tasks : tid = <<>> \/ ps[i].tasks[tid].st = "rec"
\* C09: at termination nothing is in flight, buffered or awaited (NoOrphanReceive)
Quiet == AllDone => /\ \A c \in Conn : wire[c] = <<>>
                    /\ \A i \in Party : \A j \in Party : ps[i].buf[j] = {} /\ DOMAIN ps[i].waiting[j] = {}
\* C08: the only states without a successor are the terminal ones (checked through CHECK_DEADLOCK:
\* Next has the AllDone stuttering disjunct, so any other dead state is reported as deadlock)
Termination == <>AllDone
\* the terminal state is printed (once per worker that reaches it) for the spec -> code label replay
Terminal == AllDone => PrintT(<<"terminal", [i \in Party |-> [s |-> ps[i].sentto, r |-> ps[i].rcvd]]>>)
\* level bookkeeping: _pc_level = number of unreconciled coroutines
LevelCount == \A i \in Party : ps[i].level = Cardinality({tid \in DOMAIN ps[i].tasks : tid # <<>> /\ ps[i].tasks[tid].st # "rec"})
=====================================================================
