---- MODULE MCSharesTrace ----
EXTENDS SharesTrace
M1 == <<0>>
M4 == <<1, 1>>
M8 == <<1, 1, 0>>
M9 == <<1, 0>>
====
