---- MODULE MCWire ----
EXTENDS Wire
L1 == <<1,0,0,0,0,0,0,0>>
L2 == <<2,0,0,0,0,0,0,0>>
LN == <<255,255,255,255,255,255,255,255>>
\* three frames: empty payload, one byte under a negative label, two bytes
MsgsA == << <<L1, <<>> >>, <<LN, <<9>> >>, <<L2, <<5,6>> >> >>
\* two frames, first longer than a header so that a chunk may end inside the next header
MsgsB == << <<L2, <<7,8,9,10,11,12,13,14,15,16,17,18,19>> >>, <<L1, <<>> >> >>
\* duplicate label (C09): second frame reuses L1
MsgsDup == << <<L1, <<3>> >>, <<L1, <<4>> >> >>
====
