---------------------------- MODULE Convert ----------------------------
(* C06: secure conversion between secure integers, fixed-point numbers and prime-field elements keeps the  *)
(* value.  Source value as a rational num/den: integer a -> a/1; fixed point (scaled a, fs fractional bits) *)
(* -> a / 2^fs; field element a of GF(p) -> its canonical representative (signed: in (-p/2, p/2], unsigned: *)
(* 0..p-1).  Target integer: floor or ceiling of the value (equal to it when it is whole); target fixed      *)
(* point with ft fractional bits: floor or ceiling of value * 2^ft; target field GF(pt): value mod pt.        *)
EXTENDS Integers, Sequences, TLC, Json, IOUtils
Evs == JsonDeserialize(IOEnv.TRACE_FILE)
VARIABLE k
TInit == k \in 1..Len(Evs)
TNext == UNCHANGED k
TSpec == TInit /\ [][TNext]_k
E == Evs[k]
Canon(a, p, signed) == IF signed /\ 2 * a > p THEN a - p ELSE a
Num(e) == CASE e.skind = "int" -> e.a [] e.skind = "fxp" -> e.a [] e.skind = "fld" -> Canon(e.a, e.sp, e.ssigned)
Den(e) == IF e.skind = "fxp" THEN 2 ^ e.sf ELSE 1
FloorDiv(a, n) == a \div n
CeilDiv(a, n) == 0 - ((0 - a) \div n)
Allowed(e) ==
  CASE e.tkind = "int" -> {FloorDiv(Num(e), Den(e)), CeilDiv(Num(e), Den(e))}
    [] e.tkind = "fxp" -> {FloorDiv(Num(e) * 2 ^ e.tf, Den(e)), CeilDiv(Num(e) * 2 ^ e.tf, Den(e))}
    [] e.tkind = "fld" -> {(Num(e) \div Den(e)) % e.tp}          \* whole values only
ConvOK == \A p \in 1..Len(E.res) : E.res[p] \in Allowed(E)
AgreeOK == \A p \in 1..Len(E.res) : E.res[p] = E.res[1]
=========================================================================
