---------------------------- MODULE Prf ----------------------------
(* C17: thresha.PRF.  SHAKE-128 is an uninterpreted function: every event carries the digest bytes dk the  *)
(* harness computed itself for key + input; the specification covers everything around it: number of bytes  *)
(* requested per value (byte length of bound-1, plus len(key) extra bytes when bound is no power of two),    *)
(* little-endian decoding, reduction modulo bound, count / shape, scalar form, bound 1.                      *)
EXTENDS Integers, Sequences, TLC, Json, IOUtils
RECURSIVE BitLen(_)
BitLen(x) == IF x = 0 THEN 0 ELSE 1 + BitLen(x \div 2)
IsPow2(x) == x >= 1 /\ 2 ^ (BitLen(x) - 1) = x
ByteLen(bound, keylen) == (BitLen(bound - 1) + 7) \div 8 + (IF IsPow2(bound) THEN 0 ELSE keylen)
\* value of the little-endian byte string s[lo..hi] modulo bound, without overflow (bound < 2^22)
RECURSIVE LEMod(_, _, _, _)
LEMod(s, lo, hi, bound) == IF hi < lo THEN 0 ELSE ((LEMod(s, lo + 1, hi, bound) * 256) + s[lo]) % bound
Evs == JsonDeserialize(IOEnv.TRACE_FILE)
VARIABLE k
TInit == k \in 1..Len(Evs)
TNext == UNCHANGED k
TSpec == TInit /\ [][TNext]_k
E == Evs[k]
Cnt == IF E.n < 0 THEN 1 ELSE E.n
W == ByteLen(E.bound, E.keylen)
Expected == [i \in 1..Cnt |-> IF W = 0 THEN 0 ELSE LEMod(E.dk, (i - 1) * W + 1, i * W, E.bound)]
PrfOK == /\ Len(E.dk) = Cnt * W                      \* the harness asked SHAKE for exactly this many bytes
         /\ E.out = Expected                          \* count and values (flattened for shapes)
         /\ \A i \in 1..Len(E.out) : E.out[i] >= 0 /\ E.out[i] < E.bound
         /\ E.again = E.out                           \* determinism: a second call returns the same values
         /\ (E.n < 0 => E.isscalar)                   \* n = None: a single number, the first value
         /\ (E.n >= 0 => ~E.isscalar)
         /\ E.shapeok
=====================================================================
