---- MODULE MCFieldMachine ----
EXTENDS FieldMachine
M1 == <<0>>
M4 == <<1, 1>>
M8 == <<1, 1, 0>>
M16 == <<1, 1, 0, 0>>
M9 == <<1, 0>>
M27 == <<1, 2, 0>>
M25 == <<2, 0>>
====
