---------------------------- MODULE SecIntMachine ----------------------------
(* Register machine over SecInt.tla: generates compositions of secure-integer operations. *)
EXTENDS SecInt
\* register machine for compositions: three registers with L-bit values
CONSTANTS L
Lo == 0 - 2 ^ (L - 1)
Hi == 2 ^ (L - 1) - 1
InRange(v) == v >= Lo /\ v <= Hi
VARIABLES regs, last
Ops2 == {"add", "sub", "mul", "lt", "le", "eq", "ne", "ge", "gt", "min", "max", "gcd"}
Ops1 == {"neg", "abs", "sgn", "lsb", "iszero"}
Init == regs \in [1..3 -> {-3, -1, 0, 2, Hi}] /\ last = <<"init", 0, 0, 0, 0>>
Step2(op, i, j, d) == LET v == Res(op, regs[i], regs[j], 0) IN
                      InRange(v) /\ regs' = [regs EXCEPT ![d] = v] /\ last' = <<op, i, j, d, v>>
Step1(op, i, d) == LET v == Res(op, regs[i], 0, 0) IN
                   InRange(v) /\ regs' = [regs EXCEPT ![d] = v] /\ last' = <<op, i, 0, d, v>>
StepIf(i, j, kk, d) == LET v == Res("ifelse", regs[j], regs[kk], B(regs[i] >= 0)) IN
                       regs' = [regs EXCEPT ![d] = v] /\ last' = <<"ifge0", i, j * 10 + kk, d, v>>
StepMod(i, b, d) == LET v == regs[i] % b IN regs' = [regs EXCEPT ![d] = v] /\ last' = <<"mod", i, b, d, v>>
Next == \/ \E op \in Ops2, i, j, d \in 1..3 : Step2(op, i, j, d)
        \/ \E op \in Ops1, i, d \in 1..3 : Step1(op, i, d)
        \/ \E i, j, kk, d \in 1..3 : StepIf(i, j, kk, d)
        \/ \E i, d \in 1..3, b \in {2, 3, 5} : StepMod(i, b, d)
Spec == Init /\ [][Next]_<<regs, last>>
AlwaysInRange == \A i \in 1..3 : InRange(regs[i])
==============================================================================
