---------------------------- MODULE SortMC ----------------------------
(* Design check: 0-1 principle for the generated network, all n <= NMAX; tournaments over {0,1,2}^n. *)
EXTENDS Sort
CONSTANTS NMAX, TMAX
VARIABLE vec
Init == vec \in UNION {[1..n -> {0, 1}] : n \in 1..NMAX} \cup UNION {[1..n -> {0, 1, 2}] : n \in 1..TMAX}
Next == UNCHANGED vec
Spec == Init /\ [][Next]_vec
\* 0-1 principle: a comparator network sorts every input iff it sorts every 0-1 input
ZeroOne == LET n == Len(vec)  out == Apply(vec, Comparators(n), 1) IN IsSorted(out) /\ IsPerm(out, vec)
Tournament == ArgMin(vec, 1, Len(vec)) = FirstMin(vec) /\ ArgMax(vec, 1, Len(vec)) = FirstMax(vec)
=======================================================================
