---------------------------- MODULE FieldMachine ----------------------------
(* Accumulator machine over a finite field GF(P^D): one register holding a field element and one     *)
(* action per operator of finfields.FiniteFieldElement applied to an operand.  The complete state    *)
(* graph is dumped by TLC and every edge is executed on the real finfields classes in all the ways    *)
(* the operator can be invoked (binary, reflected, in-place, with a field element, an int or a        *)
(* polynomial as the other operand).  Integers mix in by conversion: an int n < Q denotes the          *)
(* element with integer representation n (for prime fields any int, reduced modulo P).                *)
EXTENDS Fields, TLC
CONSTANTS MaxPow, MaxShift
VARIABLE acc
Ops == {"add", "sub", "rsub", "mul", "div", "rdiv", "neg", "inv", "pow", "npow", "lsh", "rsh", "eq", "set"}
Two(n) == Pow(OfInt(2), n)          \* the field element 2^n
Conv(n) == n                         \* int n (0 <= n < Q) converted to a field element
Apply(op, a, b) ==
  CASE op = "add"  -> Add(a, b)
    [] op = "sub"  -> Sub(a, b)
    [] op = "rsub" -> Sub(b, a)
    [] op = "mul"  -> Mul(a, b)
    [] op = "div"  -> Div(a, b)                 \* b # 0
    [] op = "rdiv" -> Div(b, a)                 \* a # 0
    [] op = "neg"  -> Neg(a)
    [] op = "inv"  -> Inv(a)                    \* a # 0
    [] op = "pow"  -> Pow(a, b)                 \* b = exponent 0..MaxPow
    [] op = "npow" -> Pow(Inv(a), b)            \* a ** -b, a # 0
    [] op = "lsh"  -> Mul(a, Conv(2 ^ b))       \* a << b  (2^b < Q)
    [] op = "rsh"  -> Div(a, Conv(2 ^ b))       \* a >> b  (2^b < Q, 2^b # 0 in the field)
    [] op = "eq"   -> IF a = b THEN 1 ELSE 0
    [] op = "set"  -> b
Enabled(op, a, b) ==
  CASE op \in {"add", "sub", "rsub", "mul", "eq", "set"} -> b \in Elems
    [] op = "div"  -> b \in Elems \ {0}
    [] op = "rdiv" -> b \in Elems /\ a # 0
    [] op \in {"neg"} -> b = 0
    [] op = "inv"  -> b = 0 /\ a # 0
    [] op = "pow"  -> b \in 0..MaxPow
    [] op = "npow" -> b \in 1..MaxPow /\ a # 0
    [] op = "lsh"  -> b \in 0..MaxShift /\ 2 ^ b < Q
    [] op = "rsh"  -> b \in 0..MaxShift /\ 2 ^ b < Q /\ Conv(2 ^ b) # 0
Do(op, b) == Enabled(op, acc, b) /\ acc' = Apply(op, acc, b)
Init == acc = 0
Next == \E op \in Ops, b \in 0..(IF Q > MaxPow THEN Q - 1 ELSE MaxPow) : Do(op, b)
Spec == Init /\ [][Next]_acc
Reduced == acc \in Elems
\* laws tying the operators together, evaluated in every reachable state (hence for every element)
Laws == /\ \A b \in Elems : Sub(Add(acc, b), b) = acc /\ Add(acc, b) = Add(b, acc) /\ Mul(acc, b) = Mul(b, acc)
        /\ \A b \in Elems \ {0} : Mul(Div(acc, b), b) = acc
        /\ (acc # 0 => Mul(acc, Inv(acc)) = 1)
        /\ \A n \in 0..(MaxPow - 1) : Pow(acc, n + 1) = Mul(Pow(acc, n), acc)
        /\ \A n \in 0..MaxShift : (2 ^ n < Q /\ Conv(2 ^ n) # 0) => Div(Mul(acc, Conv(2 ^ n)), Conv(2 ^ n)) = acc
        /\ Add(acc, Neg(acc)) = 0
=============================================================================
