---------------------------- MODULE RandomAlg ----------------------------
(* C33: the rejection-sampling algorithms of mpyc.random over an explicit supply of random bits.            *)
(* RandBelow and UnitVector transcribe _randbelow (random.py:44) and random_unit_vector (random.py:91),      *)
(* including the restart rule that keeps the unused low bits; Shuffle transcribes the Fisher-Yates loop       *)
(* of shuffle / sample (random.py:219) for given rotation choices.  A run that needs more bits than the supply *)
(* holds is "unfinished" (result -1).                                                                          *)
EXTENDS Integers, Sequences, FiniteSets, TLC
RECURSIVE BitLen(_)
BitLen(x) == IF x = 0 THEN 0 ELSE 1 + BitLen(x \div 2)
Bit(b, i) == (b \div (2 ^ i)) % 2
RECURSIVE Tz(_)
Tz(n) == IF n % 2 = 1 THEN 0 ELSE 1 + Tz(n \div 2)
RECURSIVE FromBits(_)
FromBits(x) == IF x = <<>> THEN 0 ELSE Head(x) + 2 * FromBits(Tail(x))
\* ---- _randbelow(n), n >= 1: state <<x (k bits, x[1] least significant), i, h, p (bits consumed)>>
RECURSIVE RBLoop(_, _, _, _, _, _)
RBLoop(n, s, x, i, h, p) ==
  LET b == n - 1  k == BitLen(b)  t == Tz(n) + 1 IN
  IF i < t THEN <<FromBits(x), p>>
  ELSE LET j == i - 1 IN                       \* i -= 1 ; x[j] in Python is x[j + 1] here
       IF Bit(b, j) = 1 THEN RBLoop(n, s, x, j, h * x[j + 1], p)
       ELSE IF h * x[j + 1] # 0
            THEN \* restart, keeping the unused bits x[:j]; draw k - j new bits
                 IF p + (k - j) > Len(s) THEN <<-1, p>>
                 ELSE RBLoop(n, s, [q \in 1..k |-> IF q <= j THEN x[q] ELSE s[p + q - j]], k, h, p + (k - j))
            ELSE RBLoop(n, s, x, j, h, p)
RandBelow(n, s) ==
  LET b == n - 1  k == BitLen(b) IN
  IF k > Len(s) THEN <<-1, 0>>
  ELSE IF n = 2 ^ k THEN <<FromBits(SubSeq(s, 1, k)), k>>          \* fast path: powers of two
  ELSE RBLoop(n, s, SubSeq(s, 1, k), k, 1, k)
\* ---- random_unit_vector(n): returns <<position of the 1 (0-based), bits consumed>>
ScalarMul(c, u) == [q \in 1..Len(u) |-> c * u[q]]
VSub(u, v) == [q \in 1..Len(u) |-> u[q] - v[q]]
RECURSIVE UVLoop(_, _, _, _, _, _)
UVLoop(n, s, x, i, u, p) ==
  LET b == n - 1  k == BitLen(b) IN
  IF i = 0 THEN <<u, p>>
  ELSE LET j == i - 1  v == ScalarMul(x[j + 1], u) IN
       IF Bit(b, j) = 1 THEN UVLoop(n, s, x, j, v \o VSub(u, v), p)
       ELSE IF v[1] # 0
            THEN IF p + (k - j) > Len(s) THEN <<<<>>, p>>
                 ELSE LET x2 == [q \in 1..k |-> IF q <= j THEN x[q] ELSE s[p + q - j]] IN
                      UVLoop(n, s, x2, k - 1, <<x2[k], 1 - x2[k]>>, p + (k - j))
            ELSE LET v1 == Tail(v)  u1 == Tail(u) IN UVLoop(n, s, x, j, <<u[1]>> \o v1 \o VSub(u1, v1), p)
UnitVector(n, s) ==
  LET k == BitLen(n - 1) IN
  IF n = 1 THEN <<<<1>>, 0>>
  ELSE IF k > Len(s) THEN <<<<>>, 0>>
  ELSE LET x == SubSeq(s, 1, k) IN UVLoop(n, s, x, k - 1, <<x[k], 1 - x[k]>>, k)
PosOfOne(u) == IF u = <<>> THEN -1 ELSE (CHOOSE q \in 1..Len(u) : u[q] = 1) - 1
IsUnit(u) == Cardinality({q \in 1..Len(u) : u[q] = 1}) = 1 /\ \A q \in 1..Len(u) : u[q] \in {0, 1}
\* ---- Fisher-Yates as in shuffle(): step i (0-based) swaps x[i] with x[i + j_i], j_i in 0..n-1-i
RECURSIVE Shuffle(_, _, _)
Shuffle(x, js, i) == IF i > Len(js) THEN x
                     ELSE LET a == i  b == i + js[i] IN
                          Shuffle([x EXCEPT ![a] = x[b], ![b] = x[a]], js, i + 1)
Bits(L) == [1..L -> {0, 1}]
\* ---- exact uniformity, one state per n (design check)
=============================================================================
