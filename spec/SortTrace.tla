---------------------------- MODULE SortTrace ----------------------------
(* Validates the comparator sequence the real _sort generates and the results of secure sorting / selection. *)
EXTENDS Sort, Json, IOUtils
Evs == JsonDeserialize(IOEnv.TRACE_FILE)
VARIABLE k
TInit == k \in 1..Len(Evs)
TNext == UNCHANGED k
TSpec == TInit /\ [][TNext]_k
E == Evs[k]
Rev(s) == [i \in 1..Len(s) |-> s[Len(s) + 1 - i]]
NetOK == E.fn = "network" => E.comps = Comparators(E.n)
SortOK == E.fn \in {"sorted", "sort"} => \A p \in 1..Len(E.res) :
            LET out == E.res[p] IN IsPerm(out, E.keys) /\ IsSorted(IF E.reverse THEN Rev(out) ELSE out)
SelectOK == /\ (E.fn = "min" => \A p \in 1..Len(E.res) : E.res[p] = <<E.keys[FirstMin(E.keys)]>>)
            /\ (E.fn = "max" => \A p \in 1..Len(E.res) : E.res[p] = <<E.keys[FirstMax(E.keys)]>>)
            /\ (E.fn = "min_max" => \A p \in 1..Len(E.res) : E.res[p] = <<E.keys[FirstMin(E.keys)], E.keys[FirstMax(E.keys)]>>)
            /\ (E.fn = "argmin" => \A p \in 1..Len(E.res) : E.res[p] = <<FirstMin(E.keys) - 1, E.keys[FirstMin(E.keys)]>>)
            /\ (E.fn = "argmax" => \A p \in 1..Len(E.res) : E.res[p] = <<FirstMax(E.keys) - 1, E.keys[FirstMax(E.keys)]>>)
==========================================================================
