---------------------------- MODULE Poly ----------------------------
(* Polynomials over GF(P) from first principles.  A polynomial is the integer whose base-P digits are *)
(* its coefficients (digit i = coefficient of X^i) -- int(poly) of mpyc.gfpx.  DMAX bounds the degree  *)
(* of any polynomial handled (operands and products).                                                 *)
EXTENDS Integers, Sequences, FiniteSets
CONSTANTS P, DMAX
Coef(a, i) == (a \div (P ^ i)) % P
RECURSIVE DegFrom(_, _)
DegFrom(a, i) == IF i < 0 THEN -1 ELSE IF Coef(a, i) # 0 THEN i ELSE DegFrom(a, i - 1)
Deg(a) == DegFrom(a, DMAX)                       \* degree, -1 for the zero polynomial
Lead(a) == IF a = 0 THEN 0 ELSE Coef(a, Deg(a))
Monic(a) == Lead(a) = 1
RECURSIVE SumTo(_, _)
SumTo(f(_), n) == IF n < 0 THEN 0 ELSE f(n) + SumTo(f, n - 1)
PAdd(a, b) == LET f(i) == ((Coef(a, i) + Coef(b, i)) % P) * (P ^ i) IN SumTo(f, DMAX)
PNeg(a) == LET f(i) == ((P - Coef(a, i)) % P) * (P ^ i) IN SumTo(f, DMAX)
PSub(a, b) == PAdd(a, PNeg(b))
ConvAt(a, b, k) == LET g(i) == IF k - i >= 0 /\ k - i <= DMAX THEN Coef(a, i) * Coef(b, k - i) ELSE 0 IN SumTo(g, k) % P
PMul(a, b) == LET f(k) == ConvAt(a, b, k) * (P ^ k) IN SumTo(f, DMAX)      \* operands with deg a + deg b <= DMAX
RECURSIVE PowP(_, _)
PowP(x, n) == IF n = 0 THEN 1 ELSE (x * PowP(x, n - 1)) % P
InvP(x) == PowP(x, P - 2)                         \* inverse in Z_P (Fermat), x # 0
\* long division: <<q, r>> with a = q b + r, deg r < deg b   (b # 0)
RECURSIVE PDivMod(_, _)
PDivMod(a, b) ==
  IF Deg(a) < Deg(b) THEN <<0, a>>
  ELSE LET sh == Deg(a) - Deg(b)
           c == (Lead(a) * InvP(Lead(b))) % P
           m == c * (P ^ sh)                       \* the monomial c X^sh
           r == PDivMod(PSub(a, PMul(b, m)), b)
       IN <<r[1] + m, r[2]>>
PMod(a, b) == PDivMod(a, b)[2]
Divides(d, a) == d # 0 /\ PMod(a, d) = 0
RECURSIVE PPowMod(_, _, _)
PPowMod(a, n, b) == IF n = 0 THEN PMod(1, b) ELSE PMod(PMul(PPowMod(a, n - 1, b), PMod(a, b)), b)
\* all polynomials of degree <= d, as integers
PolysUpTo(d) == 0..(P ^ (d + 1) - 1)
\* irreducible: degree >= 1 and no factor of degree 1..deg-1 (monic candidates suffice)
Irreducible(a) == /\ Deg(a) >= 1
                  /\ \A d \in PolysUpTo(Deg(a) - 1) : (Deg(d) >= 1 /\ Monic(d)) => ~Divides(d, a)
\* the smallest monic irreducible polynomial above a in the integer order
IsNextMonicIrr(a, r) == /\ r > a /\ Monic(r) /\ Irreducible(r)
                        /\ \A c \in (a + 1)..(r - 1) : ~(Monic(c) /\ Irreducible(c))
\* ring laws of the operators above (sanity of this module), for all polynomials of degree <= d
RingLawsUpTo(d) ==
  \A a, b, c \in PolysUpTo(d) :
     /\ PAdd(a, b) = PAdd(b, a) /\ PMul(a, b) = PMul(b, a)
     /\ PAdd(PAdd(a, b), c) = PAdd(a, PAdd(b, c))
     /\ PMul(a, PAdd(b, c)) = PAdd(PMul(a, b), PMul(a, c))
     /\ PMul(PMul(a, b), c) = PMul(a, PMul(b, c))
     /\ PAdd(a, PNeg(a)) = 0 /\ PMul(a, 1) = a
=====================================================================
