---------------------------- MODULE SecList ----------------------------
(* Python list semantics as a state machine (C31): lst is the list, ret the value returned by the last      *)
(* operation (or -9 for None).  Indices are 0-based as in Python; every operation has an in-range index.     *)
(* The complete state graph is dumped and every edge is executed on real mpyc.seclists.seclist objects with   *)
(* public ints, secret numbers and secret unit vectors as indices.                                            *)
EXTENDS Integers, Sequences, FiniteSets, TLC
CONSTANTS MaxLen, Vals
VARIABLES lst, ret
NONE == -9
At(s, i) == s[i + 1]
Count(s, v) == Cardinality({i \in 1..Len(s) : s[i] = v})
RECURSIVE IndexFrom(_, _, _)
IndexFrom(s, v, i) == IF i > Len(s) THEN -1 ELSE IF s[i] = v THEN i - 1 ELSE IndexFrom(s, v, i + 1)
IndexOf(s, v) == IndexFrom(s, v, 1)
DelAt(s, i) == SubSeq(s, 1, i) \o SubSeq(s, i + 2, Len(s))
InsAt(s, i, v) == SubSeq(s, 1, i) \o <<v>> \o SubSeq(s, i + 1, Len(s))
RECURSIVE SortedL(_)
SortedL(s) == IF s = <<>> THEN <<>> ELSE
              LET mn == CHOOSE x \in {s[i] : i \in 1..Len(s)} : \A j \in 1..Len(s) : x <= s[j]
                  p == IndexOf(s, mn)
              IN <<mn>> \o SortedL(DelAt(s, p))
RECURSIVE LexLt(_, _)
LexLt(a, b) == IF a = <<>> THEN b # <<>> ELSE IF b = <<>> THEN FALSE
               ELSE IF a[1] # b[1] THEN a[1] < b[1] ELSE LexLt(Tail(a), Tail(b))
B(p) == IF p THEN 1 ELSE 0
Rep(s, n) == IF n = 0 THEN <<>> ELSE IF n = 1 THEN s ELSE s \o s
Others == {<<>>, <<1>>, <<0, 2>>, <<1, 1, 0>>}
Init == lst = <<>> /\ ret = NONE
Set(l, r) == lst' = l /\ ret' = r
Do(op, i, v) ==
  CASE op = "get"     -> i \in 0..(Len(lst) - 1) /\ v = 0 /\ Set(lst, At(lst, i))
    [] op = "set"     -> i \in 0..(Len(lst) - 1) /\ v \in Vals /\ Set([lst EXCEPT ![i + 1] = v], NONE)
    [] op = "del"     -> i \in 0..(Len(lst) - 1) /\ v = 0 /\ Set(DelAt(lst, i), NONE)
    [] op = "insert"  -> i \in 0..Len(lst) /\ v \in Vals /\ Len(lst) < MaxLen /\ Set(InsAt(lst, i, v), NONE)
    [] op = "pop"     -> i \in 0..(Len(lst) - 1) /\ v = 0 /\ Set(DelAt(lst, i), At(lst, i))
    [] op = "poplast" -> i = 0 /\ v = 0 /\ lst # <<>> /\ Set(DelAt(lst, Len(lst) - 1), At(lst, Len(lst) - 1))
    [] op = "append"  -> i = 0 /\ v \in Vals /\ Len(lst) < MaxLen /\ Set(Append(lst, v), NONE)
    [] op = "extend"  -> i = 0 /\ v \in Vals /\ Len(lst) + 2 <= MaxLen /\ Set(lst \o <<v, 2 - v>>, NONE)
    [] op = "add"     -> i = 0 /\ v \in Vals /\ Len(lst) + 1 <= MaxLen /\ Set(lst \o <<v>>, NONE)
    [] op = "mul"     -> i \in 0..2 /\ v = 0 /\ Len(lst) * i <= MaxLen /\ Set(Rep(lst, i), NONE)
    [] op = "remove"  -> i = 0 /\ v \in Vals /\ Count(lst, v) > 0 /\ Set(DelAt(lst, IndexOf(lst, v)), NONE)
    [] op = "count"   -> i = 0 /\ v \in Vals /\ Set(lst, Count(lst, v))
    [] op = "contains"-> i = 0 /\ v \in Vals /\ Set(lst, B(Count(lst, v) > 0))
    [] op = "find"    -> i = 0 /\ v \in Vals /\ Set(lst, IndexOf(lst, v))
    [] op = "index"   -> i = 0 /\ v \in Vals /\ Count(lst, v) > 0 /\ Set(lst, IndexOf(lst, v))
    [] op = "sort"    -> i \in 0..1 /\ v = 0 /\ Set(IF i = 0 THEN SortedL(lst)
                                                   ELSE [j \in 1..Len(lst) |-> SortedL(lst)[Len(lst) + 1 - j]], NONE)
    [] op = "lt"      -> i \in 1..Cardinality(Others) /\ v = 0 /\
                         Set(lst, B(LexLt(lst, CHOOSE o \in Others : Cardinality({q \in Others : LexLt(q, o)}) = i - 1)))
    [] op = "eq"      -> i \in 1..Cardinality(Others) /\ v = 0 /\
                         Set(lst, B(lst = (CHOOSE o \in Others : Cardinality({q \in Others : LexLt(q, o)}) = i - 1)))
Ops == {"get", "set", "del", "insert", "pop", "poplast", "append", "extend", "add", "mul", "remove", "count",
        "contains", "find", "index", "sort", "lt", "eq"}
Next == \E op \in Ops, i \in 0..4, v \in Vals \cup {0} : Do(op, i, v)
Spec == Init /\ [][Next]_<<lst, ret>>
LenBound == Len(lst) <= MaxLen
ElemsOK == \A j \in 1..Len(lst) : lst[j] \in Vals
=======================================================================
