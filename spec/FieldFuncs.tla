---------------------------- MODULE FieldFuncs ----------------------------
(* Validates recorded results of finfields square roots / residuosity tests (C21) and of the byte     *)
(* encoding, pickling and integer views of field elements (C22) against their definitions.           *)
EXTENDS Fields, TLC, Json, IOUtils
Evs == JsonDeserialize(IOEnv.TRACE_FILE)
VARIABLE k
TInit == k \in 1..Len(Evs)
TNext == UNCHANGED k
TSpec == TInit /\ [][TNext]_k
E == Evs[k]
\* ---- C21 ----
IsSqrOK == E.fn = "sqrt" => (E.is_sqr = IsSqr(E.a))
SqrtOK == (E.fn = "sqrt" /\ IsSqr(E.a)) => (E.sqrt \in Elems /\ Mul(E.sqrt, E.sqrt) = E.a)
InvSqrtOK == (E.fn = "sqrt" /\ IsSqr(E.a)) =>
               IF E.a = 0 THEN E.isqrt_exc = "ZeroDivisionError"
               ELSE E.isqrt \in Elems /\ Mul(Mul(E.isqrt, E.isqrt), E.a) = 1
===========================================================================
