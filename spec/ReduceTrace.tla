---------------------------- MODULE ReduceTrace ----------------------------
(* Validates results and application depths of the real mpctools.reduce / accumulate, run with tuple    *)
(* concatenation and a depth-tracking wrapper, against Reduce.tla.                                       *)
EXTENDS Reduce, Json, IOUtils
Evs == JsonDeserialize(IOEnv.TRACE_FILE)
VARIABLE k
TInit == k \in 1..Len(Evs) /\ n = 1
TNext == UNCHANGED <<k, n>>
TSpec == TInit /\ [][TNext]_<<k, n>>
E == Evs[k]
\* E.n items (1..n; with an initial value the items are 0..n, item 0 first: we number them 1..n+1 here)
RedOK == E.fn = "reduce" =>
           IF E.n = 0 THEN E.exc = "TypeError"
           ELSE /\ E.exc = "" /\ E.res = <<Word(1, E.n)>>             \* = functools.reduce over concatenation
                /\ E.depth = ReduceT(Items(E.n)).d /\ E.depth = CeilLog2(E.n)
AccOK == E.fn = "accumulate" =>
           /\ Len(E.res) = E.n /\ \A i \in 1..E.n : E.res[i] = Word(1, i)   \* = itertools.accumulate
           /\ (E.n >= 1 => E.depth = MaxDepth(IF E.method = "Sklansky" THEN AccS(Items(E.n), 0, E.n) ELSE AccB(Items(E.n), 0, E.n)))
           /\ (E.method = "Sklansky" => E.depth = CeilLog2(E.n))
============================================================================
