---------------------------- MODULE Keys ----------------------------
(* PRSS key distribution (runtime.py:103-141 threshold setter, _prss_keys_to_peer,              *)
(* _prss_keys_from_peer; asyncoro.py:39-93 handshake).  For every subset S of M-T parties the     *)
(* lowest member generates the key; on connection i -> j (i < j, i is the client) the client      *)
(* sends, in its enumeration order, the keys of the subsets it owns that contain j; the server    *)
(* cuts the packet into 16-byte blocks and stores them under the subsets it enumerates itself.    *)
(* Handshakes complete in any order (their chunking is Wire's concern).                           *)
EXTENDS Naturals, Sequences, FiniteSets, TLC
CONSTANTS M, T
Party == 0..M-1
\* subsets of size n as strictly increasing sequences, as itertools.combinations yields them
RECURSIVE Combs(_, _)
Combs(lo, n) == IF n = 0 THEN {<<>>}
                ELSE UNION {{<<x>> \o c : c \in Combs(x + 1, n - 1)} : x \in lo..M-1}
Subsets == Combs(0, M - T)
Mem(S) == {S[k] : k \in 1..Len(S)}
\* lexicographic order = enumeration order of itertools.combinations
RECURSIVE LexLt(_, _)
LexLt(a, b) == IF a = <<>> THEN b # <<>> ELSE IF b = <<>> THEN FALSE
               ELSE IF a[1] # b[1] THEN a[1] < b[1] ELSE LexLt(Tail(a), Tail(b))
RECURSIVE Sorted(_)
Sorted(Ss) == IF Ss = {} THEN <<>> ELSE
              LET mn == CHOOSE s \in Ss : \A s2 \in Ss \ {s} : LexLt(s, s2) IN <<mn>> \o Sorted(Ss \ {mn})
\* the two enumeration sites (client: _prss_keys_to_peer, server: _prss_keys_from_peer)
ClientOrder(i, j) == Sorted({S \in Subsets : S[1] = i /\ j \in Mem(S)})
ServerOrder(j, i) == Sorted({S \in Subsets : S[1] = i /\ j \in Mem(S)})

VARIABLES own,     \* own[i]: subset -> key (keys are named by the subset they were generated for)
          made,    \* connections on which the client has written its handshake
          packet,  \* packet[<<i,j>>]: sequence of keys written by client i to server j
          stored   \* stored[j]: subset -> key, as stored by server j from received packets
vars == <<own, made, packet, stored>>
Conn == {c \in Party \X Party : c[1] < c[2]}
Init == /\ own = [i \in Party |-> [S \in {S \in Subsets : S[1] = i} |-> S]]
        /\ made = {}
        /\ packet = [c \in Conn |-> <<>>]
        /\ stored = [j \in Party |-> <<>>]
\* client side of connection_made
Connect(i, j) == /\ <<i, j>> \notin made
                 /\ made' = made \cup {<<i, j>>}
                 /\ packet' = [packet EXCEPT ![<<i, j>>] = [k \in 1..Len(ClientOrder(i, j)) |-> own[i][ClientOrder(i, j)[k]]]]
                 /\ UNCHANGED <<own, stored>>
\* server side: complete handshake parsed (data_received, asyncoro.py:76-93)
Receive(i, j) == /\ <<i, j>> \in made
                 /\ \A S \in Mem(ServerOrder(j, i)) : S \notin DOMAIN stored[j]
                 /\ LET so == ServerOrder(j, i) IN
                    /\ Len(packet[<<i, j>>]) = Len(so)      \* packet length = len_packet / 16
                    /\ stored' = [stored EXCEPT ![j] = [S \in DOMAIN @ \cup Mem(so) |->
                                     IF S \in DOMAIN @ THEN @[S]
                                     ELSE packet[<<i, j>>][CHOOSE k \in 1..Len(so) : so[k] = S]]]
                 /\ UNCHANGED <<own, made, packet>>
Done == \A c \in Conn : c \in made /\ \A S \in Mem(ServerOrder(c[2], c[1])) : S \in DOMAIN stored[c[2]]
Next == (\E c \in Conn : Connect(c[1], c[2]) \/ Receive(c[1], c[2])) \/ (Done /\ UNCHANGED vars)
Spec == Init /\ [][Next]_vars
---------------------------------------------------------------------
KeyOf(j, S) == IF S[1] = j THEN own[j][S] ELSE stored[j][S]
Holds(j, S) == (S[1] = j) \/ S \in DOMAIN stored[j]
\* after setup: all members of S hold the same key for S, nobody else holds it
Agreement == Done => \A S \in Subsets : \A j \in Party :
                 IF j \in Mem(S) THEN Holds(j, S) /\ KeyOf(j, S) = S ELSE ~Holds(j, S)
\* never (also before completion) does a party hold a key of a subset it is not a member of, or a wrong key
NoForeignKey == \A j \in Party : \A S \in DOMAIN stored[j] : j \in Mem(S) /\ stored[j][S] = S
\* every coalition of T parties lacks at least one key
CoalitionLacksKey == Done => \A C \in SUBSET Party : Cardinality(C) = T =>
                        \E S \in Subsets : \A j \in C : ~Holds(j, S)
Terminal == Done => PrintT(<<"keys", M, T, [c \in Conn |-> ClientOrder(c[1], c[2])],
                             [j \in Party |-> DOMAIN stored[j] \cup {S \in Subsets : S[1] = j}]>>)
=====================================================================
