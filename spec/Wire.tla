---------------------------- MODULE Wire ----------------------------
(* One receiving endpoint of an MPyC connection (asyncoro.MessageExchanger) and the byte stream  *)
(* its peer writes: optional handshake  pid(2) ++ keys(16*NKeys)  followed by frames              *)
(* pc(8) ++ size(4, little endian) ++ payload.  Arrive(k) is one call of data_received with the  *)
(* next k bytes; Receive(pc) is one call of receive(pc).  Transcribed from asyncoro.py:54-114.    *)
EXTENDS Naturals, Sequences, FiniteSets, TLC
CONSTANTS Msgs,    \* sequence of <<label (8 bytes), payload (byte sequence, < 256 bytes)>>, sent in this order
          NKeys,   \* number of 16-byte PRSS keys in the handshake
          HasHS,   \* TRUE: this endpoint is the server side (a handshake precedes the frames)
          PeerPid, \* pid announced in the handshake (< 256)
          MaxChunk \* largest chunk handed to data_received in one call
VARIABLES nsent,    \* number of frames written by the peer so far
          stream,   \* all bytes written by the peer so far
          arrived,  \* length of the prefix of stream handed to data_received
          rx,       \* MessageExchanger.bytes: received but unparsed
          peer,     \* MessageExchanger.peer_pid (NoPeer while the handshake is incomplete)
          keys,     \* keys stored by _prss_keys_from_peer, in the server's enumeration order
          buffers,  \* MessageExchanger.buffers: label -> [k: "pl"|"fut", v: payload]
          got,      \* label -> payload that reached a receive() (directly or through its future)
          asked,    \* labels for which receive() was called
          err       \* a frame arrived for a label whose buffer entry already holds a payload
vars == <<nsent, stream, arrived, rx, peer, keys, buffers, got, asked, err>>

NoPeer == 999
Rep(b, n) == [i \in 1..n |-> b]
Frame(m) == m[1] \o <<Len(m[2]), 0, 0, 0>> \o m[2]
KeyOf(j) == Rep(100 + j, 16)
HS == <<PeerPid, 0>> \o [i \in 1..16*NKeys |-> 100 + ((i-1) \div 16) + 1]
Labels == {Msgs[i][1] : i \in 1..Len(Msgs)}

Init == /\ nsent = 0
        /\ stream = (IF HasHS THEN HS ELSE <<>>)
        /\ arrived = 0
        /\ rx = <<>>
        /\ peer = (IF HasHS THEN NoPeer ELSE PeerPid)
        /\ keys = <<>>
        /\ buffers = <<>>
        /\ got = <<>>
        /\ asked = {}
        /\ err = FALSE

Send == /\ nsent < Len(Msgs)
        /\ nsent' = nsent + 1
        /\ stream' = stream \o Frame(Msgs[nsent+1])
        /\ UNCHANGED <<arrived, rx, peer, keys, buffers, got, asked, err>>

Without(f, k) == [x \in DOMAIN f \ {k} |-> f[x]]

\* the while-loop of data_received; returns <<rest, buffers, got, err>>
RECURSIVE Parse(_, _, _, _)
Parse(d, bufs, g, e) ==
  IF Len(d) < 12 THEN <<d, bufs, g, e>>
  ELSE LET pc == SubSeq(d, 1, 8)
           sz == d[9] + 256 * d[10] + 65536 * d[11] + 16777216 * d[12]
       IN IF Len(d) < sz + 12 THEN <<d, bufs, g, e>>
          ELSE LET pl == SubSeq(d, 13, 12 + sz)
                   rest == SubSeq(d, 13 + sz, Len(d))
               IN IF pc \in DOMAIN bufs
                  THEN IF bufs[pc].k = "fut"
                       THEN Parse(rest, Without(bufs, pc), g @@ (pc :> pl), e)
                       ELSE Parse(rest, bufs, g, TRUE)   \* pop(pc).set_result on bytes: AttributeError
                  ELSE Parse(rest, bufs @@ (pc :> [k |-> "pl", v |-> pl]), g, e)

Arrive(k) ==
  /\ k \in 1..(Len(stream) - arrived)
  /\ ~err
  /\ arrived' = arrived + k
  /\ LET d0 == rx \o SubSeq(stream, arrived + 1, arrived + k)
         hsdone == peer # NoPeer
         need == 2 + 16 * NKeys
     IN IF ~hsdone /\ (Len(d0) < 2 \/ Len(d0) < need)
        THEN /\ rx' = d0
             /\ UNCHANGED <<peer, keys, buffers, got, err>>
        ELSE LET d1 == IF hsdone THEN d0 ELSE SubSeq(d0, need + 1, Len(d0))
                 r == Parse(d1, buffers, got, err)
             IN /\ peer' = (IF hsdone THEN peer ELSE d0[1] + 256 * d0[2])
                /\ keys' = (IF hsdone THEN keys
                            ELSE [j \in 1..NKeys |-> SubSeq(d0, 3 + 16*(j-1), 2 + 16*j)])
                /\ rx' = r[1] /\ buffers' = r[2] /\ got' = r[3] /\ err' = r[4]
  /\ UNCHANGED <<nsent, stream, asked>>

Receive(pc) ==
  /\ pc \in Labels \ asked
  /\ ~err
  /\ asked' = asked \cup {pc}
  /\ IF pc \in DOMAIN buffers /\ buffers[pc].k = "pl"
     THEN /\ got' = got @@ (pc :> buffers[pc].v)
          /\ buffers' = Without(buffers, pc)
     ELSE /\ buffers' = [x \in DOMAIN buffers \cup {pc} |->
                           IF x = pc THEN [k |-> "fut", v |-> <<>>] ELSE buffers[x]]
          /\ got' = got
  /\ UNCHANGED <<nsent, stream, arrived, rx, peer, keys, err>>

Next == Send \/ (\E k \in 1..MaxChunk : Arrive(k)) \/ (\E pc \in Labels : Receive(pc))
Spec == Init /\ [][Next]_vars

---------------------------------------------------------------------
\* Properties
DistinctLabels == \A i, j \in 1..Len(Msgs) : i # j => Msgs[i][1] # Msgs[j][1]
NoErr == DistinctLabels => ~err
\* whatever reaches a receive() is the payload sent under that label
DeliveredRight == \A pc \in DOMAIN got : \E i \in 1..nsent : Msgs[i][1] = pc /\ Msgs[i][2] = got[pc]
\* end offset (in stream) of the i-th frame
RECURSIVE EndOf(_)
EndOf(i) == IF i = 0 THEN (IF HasHS THEN Len(HS) ELSE 0) ELSE EndOf(i-1) + 12 + Len(Msgs[i][2])
\* a frame is never delivered (to a receive or into buffers) before its last byte arrived
NoPartialDelivery ==
  \A i \in 1..Len(Msgs) :
     LET pc == Msgs[i][1] IN
     (pc \in DOMAIN got \/ (pc \in DOMAIN buffers /\ buffers[pc].k = "pl")) =>
        \E j \in 1..nsent : Msgs[j][1] = pc /\ EndOf(j) <= arrived
Quiescent == nsent = Len(Msgs) /\ arrived = Len(stream) /\ asked = Labels
AllDelivered == (DistinctLabels /\ Quiescent) =>
                   /\ DOMAIN got = Labels /\ DOMAIN buffers = {} /\ rx = <<>>
                   /\ (HasHS => peer = PeerPid /\ keys = [j \in 1..NKeys |-> KeyOf(j)])
\* the handshake is recovered exactly, as soon as (and not before) all of it arrived
HandshakeExact == HasHS => /\ (peer # NoPeer <=> arrived >= Len(HS))
                           /\ (peer # NoPeer => peer = PeerPid /\ keys = [j \in 1..NKeys |-> KeyOf(j)])
\* duplicate label => err, as soon as both frames are parsed with no receive in between
DupDetected == (\E i, j \in 1..nsent : i < j /\ Msgs[i][1] = Msgs[j][1] /\ EndOf(j) <= arrived
                  /\ Msgs[i][1] \notin asked /\ rx = <<>>) => err
=====================================================================
