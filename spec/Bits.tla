---------------------------- MODULE Bits ----------------------------
(* C30: bit-level oblivious building blocks (runtime.py: add_bits 4275, to_bits 4337, from_bits 4459,   *)
(* find 4486, unit_vector 4979, trailing_zeros 1883, gcp2 1908) by their definitions.  Bit vectors are     *)
(* sequences, least significant bit first; positions reported by find are 0-based as in Python.            *)
EXTENDS Integers, Sequences, TLC, Json, IOUtils
B(p) == IF p THEN 1 ELSE 0
BitsOf(a, n) == [i \in 1..n |-> ((a % (2 ^ n)) \div (2 ^ (i - 1))) % 2]      \* two's complement for a < 0
RECURSIVE FromBits(_)
FromBits(x) == IF x = <<>> THEN 0 ELSE Head(x) + 2 * FromBits(Tail(x))
AddBits(x, y) == BitsOf(FromBits(x) + FromBits(y), Len(x))                    \* carry out of the top bit is dropped
\* index of the first occurrence of a in x, Len(x) if absent
RECURSIVE FindFrom(_, _, _)
FindFrom(x, a, i) == IF i > Len(x) THEN Len(x) ELSE IF x[i] = a THEN i - 1 ELSE FindFrom(x, a, i + 1)
Find(x, a) == FindFrom(x, a, 1)
Found(x, a) == Find(x, a) < Len(x)
UnitVector(a, n) == [i \in 1..n |-> B(i - 1 = a % n)]                         \* a = n gives e_0 (documented)
RECURSIVE Tz(_, _)
Tz(a, l) == IF l = 0 THEN 0 ELSE IF a % 2 = 1 THEN 0 ELSE 1 + Tz(a \div 2, l - 1)   \* trailing zeros among l bits
Min(a, b) == IF a <= b THEN a ELSE b
Evs == JsonDeserialize(IOEnv.TRACE_FILE)
VARIABLE k
TInit == k \in 1..Len(Evs)
TNext == UNCHANGED k
TSpec == TInit /\ [][TNext]_k
E == Evs[k]
Spec1(e) ==
  CASE e.fn = "add_bits" -> AddBits(e.x, e.y)
    [] e.fn = "to_bits" -> BitsOf(e.a, e.n)
    [] e.fn = "from_bits" -> <<FromBits(e.x)>>
    [] e.fn = "find" -> <<Find(e.x, e.a)>>                                   \* default: len(x) if absent
    [] e.fn = "find_e" -> <<IF Found(e.x, e.a) THEN Find(e.x, e.a) ELSE e.n>>   \* e = n given explicitly
    [] e.fn = "find_f" -> <<2 ^ Find(e.x, e.a)>>                              \* f(i) = 2^i (also through cs_f)
    [] e.fn = "find_raw" -> <<B(~Found(e.x, e.a)), Find(e.x, e.a)>>           \* e = None: (nf, ix)
    [] e.fn = "unit_vector" -> UnitVector(e.a, e.n)
    [] e.fn = "gcp2" -> <<2 ^ Min(Tz(e.a % (2 ^ e.n), e.n), Tz(e.b % (2 ^ e.n), e.n))>>
    [] OTHER -> e.res[1]
BitsOK == \A p \in 1..Len(E.res) : E.res[p] = Spec1(E)
\* trailing_zeros: the bits are right up to and including the least significant 1 (all of them if a = 0 mod 2^l)
TzOK == E.fn = "trailing_zeros" => \A p \in 1..Len(E.res) :
          LET z == Tz(E.a % (2 ^ E.n), E.n)  want == BitsOf(E.a, E.n) IN
          \A i \in 1..Min(z + 1, E.n) : E.res[p][i] = want[i]
=====================================================================
