---------------------------- MODULE PCSchedCrash ----------------------------
(* PCSched with one crash fault: at any moment one party stops forever and each of its outgoing     *)
(* connections delivers only a prefix of the frames still in flight (a frame cut in the middle is   *)
(* never parsed: Wire.NoPartialDelivery).  Survivors keep running.  The safety invariants of        *)
(* PCSched must survive the fault; termination is not required (survivors may wait forever).        *)
EXTENDS PCSched
VARIABLE crashed
cvars == <<ps, wire, crashed>>
CInit == Init /\ crashed = {}
Prefixes(s) == {SubSeq(s, 1, k) : k \in 0..Len(s)}
Crash(i) == /\ crashed = {}
            /\ crashed' = {i}
            /\ wire' \in {w \in [Conn -> UNION {Prefixes(wire[c]) : c \in Conn}] :
                            \A c \in Conn : IF c[1] = i THEN w[c] \in Prefixes(wire[c]) ELSE w[c] = wire[c]}
            /\ UNCHANGED ps
CNext == \/ \E i \in Party \ crashed : PartyNext(i) /\ UNCHANGED crashed
         \/ \E c \in Conn : c[2] \notin crashed /\ Deliver(c[1], c[2]) /\ UNCHANGED crashed
         \/ \E i \in Party : Crash(i)
CSpec == CInit /\ [][CNext]_cvars
\* a survivor that finished its main coroutine did so with every coroutine reconciled (its outputs were
\* computed from complete sets of frames): BarrierSound restricted to survivors is the same formula
SurvivorSound == \A i \in Party \ crashed : MainDone(i) =>
                    \A tid \in DOMAIN ps[i].tasks : tid = <<>> \/ ps[i].tasks[tid].st = "rec"
\* every frame a survivor consumed under label L from j was sent by j under L (never a truncated or foreign one)
ConsumedWereSent == \A i \in Party \ crashed : \A j \in Party \ {i} :
                       \A lab \in ps[i].rcvd[j] :
                          (lab \notin DOMAIN ps[i].waiting[j]) => lab \in ps[j].sentto[i]
==============================================================================
