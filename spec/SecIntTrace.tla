---------------------------- MODULE SecIntTrace ----------------------------
(* Validates results of secure-integer operations recorded from real party worlds against SecInt.tla:   *)
(* every receiving party's output must equal the specified Python-integer result.                        *)
EXTENDS SecInt, Json, IOUtils
Evs == JsonDeserialize(IOEnv.TRACE_FILE)
VARIABLE k
TInit == k \in 1..Len(Evs)
TNext == UNCHANGED k
TSpec == TInit /\ [][TNext]_k
E == Evs[k]
Spec1(e) ==
  CASE e.kind = "scalar" -> <<Res(e.op, e.a, e.b, e.c)>>
    [] e.kind = "pair"   -> Pair(e.op, e.a, e.b)
    [] e.kind = "list"   -> <<ListRes(e.op, e.xs, e.ys)>>
    [] OTHER -> e.res[1]
\* C01: exact result, identical for every party
IntOK == /\ (E.kind \in {"scalar", "pair", "list"} => \A p \in 1..Len(E.res) : E.res[p] = Spec1(E))
         /\ (E.kind = "gcdext" => \A p \in 1..Len(E.res) :
                LET r == E.res[p] IN r[1] = Gcd(E.a, E.b) /\ r[1] = r[2] * E.a + r[3] * E.b)
         /\ (E.kind = "inverse" => \A p \in 1..Len(E.res) :
                LET u == E.res[p][1] IN u >= 0 /\ u < E.b /\ (E.a * u) % E.b = 1 % E.b)
AgreeOK == \A p \in 1..Len(E.res) : E.res[p] = E.res[1]
============================================================================
