---------------------------- MODULE PrssMC ----------------------------
(* Design check of Prss.tla: one state per assignment of PRF outputs to subsets. *)
EXTENDS Prss
M1 == <<0>>
M4 == <<1, 1>>
M8 == <<1, 1, 0>>
M9 == <<1, 0>>
CONSTANT Sample    \* 0: every assignment [Subsets -> Elems]; n > 0: assignments with at most two nonzero entries
VARIABLE rcase
Sparse == {[S \in Subsets |-> IF S = w[1] THEN w[3] ELSE IF S = w[2] THEN w[4] ELSE 0] :
             w \in Subsets \X Subsets \X Elems \X Elems}
PInit == rcase \in (IF Sample = 0 THEN [Subsets -> Elems] ELSE Sparse)
PNext == UNCHANGED rcase
PSpec == PInit /\ [][PNext]_rcase
\* C15: the independently computed shares are a degree-t sharing of the sum of the PRF outputs
PrssConsistent == OnPoly([i \in Party |-> Share(i, rcase)], NT, Secret(rcase))
\* zero-sharing with one PRF value per subset and coefficient (all t coefficients equal to the subset's value
\* rotated by index, so that every coefficient position is exercised): degree <= 2t, secret 0
ZR(r) == [S \in Subsets |-> [j \in 1..NT |-> Add(r[S], OfInt(j - 1))]]
PrssZeroConsistent == NT >= 1 => OnPoly([i \in Party |-> ZeroShare(i, ZR(rcase))], 2 * NT, 0)
=======================================================================
