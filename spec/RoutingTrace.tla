---------------------------- MODULE RoutingTrace ----------------------------
(* Validates per-party results of real transfer / input / output calls against Routing.tla, and     *)
(* (C19) the messages each such operation put on the wire against the set of allowed arcs.            *)
EXTENDS Routing, Json, IOUtils
Evs == JsonDeserialize(IOEnv.TRACE_FILE)
VARIABLE k
TInit == k \in 1..Len(Evs)
TNext == UNCHANGED k
TSpec == TInit /\ [][TNext]_k
E == Evs[k]
Parties(e) == 0..(e.m - 1)
ToSet(s) == {s[n] : n \in 1..Len(s)}
\* C07: every party's result is the expected one (res[r+1] is a sequence; <<-1>> encodes None, <<-2>> raised)
RoutingOK ==
  CASE E.kind = "transfer" -> \A r \in Parties(E) : E.res[r + 1] = ExpectedTransfer(E.arcs, E.sint, E.vals, r)
    [] E.kind \in {"output", "output_flt"} -> \A r \in Parties(E) : E.res[r + 1] = ExpectedOutput(ToSet(E.R), E.vals[1], r)
    [] E.kind = "input"    -> \A r \in Parties(E) : E.res[r + 1] = ExpectedInput(E.senders, E.vals)
    [] OTHER -> TRUE
\* C19: messages attributed to the operation (E.sent: sequence of <<src, dst>>) go only along allowed arcs:
\* transfer: the arcs of the graph; output: to receivers, from one of their th predecessors
Pred(e, src, dst) == ((dst - src + e.m) % e.m) \in 1..e.th
HearOK == E.status # "done" \/
  \* E.sent[n] = <<src, dst, fn>>, fn: 1 output, 2 transfer, 3 _distribute, 4 _reshare, 0 other
  CASE E.kind = "transfer" -> \A n \in 1..Len(E.sent) : \E a \in 1..Len(E.arcs) : E.arcs[a] = <<E.sent[n][1], E.sent[n][2]>>
    [] E.kind = "output"   -> \A n \in 1..Len(E.sent) : E.sent[n][2] \in ToSet(E.R) /\ Pred(E, E.sent[n][1], E.sent[n][2])
    \* secure floats to a subset: shares of the value go to receivers only; whatever a non-receiver gets is a
    \* dealing message of input / resharing (a fresh degree-t sharing: Shamir.ViewUniform)
    [] E.kind = "output_flt" -> \A n \in 1..Len(E.sent) :
                                  /\ (E.sent[n][3] = 1 => E.sent[n][2] \in ToSet(E.R) /\ Pred(E, E.sent[n][1], E.sent[n][2]))
                                  /\ (E.sent[n][2] \notin ToSet(E.R) => E.sent[n][3] \in {3, 4})
    [] OTHER -> TRUE
\* and parties outside the receivers get no byte from the operation (with/without difference of received bytes)
QuietOK == E.status # "done" \/
  CASE E.kind = "output"   -> \A r \in Parties(E) : r \notin ToSet(E.R) => E.extra[r + 1] = 0
    [] E.kind = "transfer" -> \A r \in Parties(E) : Incoming(E.arcs, r) = <<>> => E.extra[r + 1] = 0
    [] OTHER -> TRUE
=============================================================================
