---- MODULE MCShareProto ----
EXTENDS ShareProto
M1 == <<0>>
M4 == <<1, 1>>
M8 == <<1, 1, 0>>
M9 == <<1, 0>>
SA == {2, 3}
SB == {0, 4}
SB1 == {4}
====
