---------------------------- MODULE SecFxp ----------------------------
(* Abstract semantics of MPyC secure fixed-point numbers (C02, C03).  A value x with F fractional bits is   *)
(* the scaled integer X = x * 2^F; all bounds are stated in units of 2^-F, i.e. in units of 1 on X.          *)
(* An event records operands (scaled), the result opened by every party (scaled), and the integral marks.   *)
EXTENDS Integers, Sequences, TLC, Json, IOUtils
Abs(x) == IF x < 0 THEN -x ELSE x
B(p) == IF p THEN 1 ELSE 0
RECURSIVE PowI(_, _)
PowI(b, e) == IF e = 0 THEN 1 ELSE b * PowI(b, e - 1)
FloorDiv(a, n) == a \div n                       \* n > 0
CeilDiv(a, n) == 0 - ((0 - a) \div n)
Evs == JsonDeserialize(IOEnv.TRACE_FILE)
VARIABLE k
TInit == k \in 1..Len(Evs)
TNext == UNCHANGED k
TSpec == TInit /\ [][TNext]_k
E == Evs[k]
S == 2 ^ E.f                                     \* scale
\* Within(r) : the scaled result r of the recorded operation is inside the documented interval
Within(e, r) ==
  LET a == e.a  b == e.b  s == 2 ^ e.f IN
  CASE e.op = "add" -> r = a + b
    [] e.op = "sub" -> r = a - b
    [] e.op = "neg" -> r = 0 - a
    [] e.op = "lt" -> r = s * B(a < b)            \* comparison results are the numbers 0.0 / 1.0
    [] e.op = "le" -> r = s * B(a <= b)
    [] e.op = "eq" -> r = s * B(a = b)
    [] e.op = "ge" -> r = s * B(a >= b)
    [] e.op = "abs" -> r = Abs(a)
    [] e.op = "max" -> r = (IF a >= b THEN a ELSE b)
    [] e.op = "min" -> r = (IF a <= b THEN a ELSE b)
    \* product of two secure numbers, or with a public integer (b scaled too): within one unit
    [] e.op \in {"mul", "mulint"} -> Abs(r * s - a * b) <= s
    \* public float factor c = e.cn / e.cd: within 2 (1 + |x|) units
    [] e.op = "mulfloat" -> Abs(r * e.cd - a * e.cn) * s <= 2 * e.cd * (s + Abs(a))
    \* x / y and 1 / y for |y| >= 2^-F: within 16 (1 + |x|) units     (reciprocal: a = 2^F, i.e. x = 1)
    [] e.op \in {"div", "rec"} -> s * Abs(r * b - a * s) <= 16 * (s + Abs(a)) * Abs(b)
    \* truncation by 2^n (e.n): floor or ceiling of the exact quotient
    [] e.op = "trunc" -> r \in {FloorDiv(a, 2 ^ e.n), CeilDiv(a, 2 ^ e.n)}
    \* x ** n: within n (1 + |x|)^(n-1) units:  |r s^(n-1) - a^n| s^(n-1)... kept in integers by scaling with s^(n-1)
    [] e.op = "pow" -> Abs(r * PowI(s, e.n - 1) - PowI(a, e.n)) <= e.n * PowI(s + Abs(a), e.n - 1)
    \* sine / cosine: reference enclosure [e.lo, e.hi] (scaled) supplied by the harness from exact arithmetic
    [] e.op \in {"sin", "cos"} -> r >= e.lo - 4 /\ r <= e.hi + 4
    \* list operations: element h of the result list; exact elementwise sums / selections
    [] e.op = "listadd" -> r = a + b
    [] e.op = "listsub" -> r = a - b
    [] e.op = "scalarmul" -> Abs(r * s - a * b) <= s
    [] e.op = "schur" -> Abs(r * s - a * b) <= s
    [] e.op = "ifelselist" -> r = (IF e.n # 0 THEN a ELSE b)
    [] e.op = "sumlist" -> r = a                               \* a = exact sum, computed by the harness as a scaled integer
    [] e.op = "square-after" -> Abs(r * s - a * a) <= s          \* squaring a value produced by a list operation
    [] e.op = "input" -> r = a
    [] OTHER -> FALSE
\* C02: every party's result lies in the interval, and all parties agree
\* (results are first required to be l-bit values: the cases are generated with results in range, and the
\* interval arithmetic below must not overflow TLC's integers on garbage)
InRange(e, r) == r >= 0 - 2 ^ (e.l - 1) /\ r < 2 ^ (e.l - 1)
BoundOK == \A p \in 1..Len(E.res) : InRange(E, E.res[p]) /\ Within(E, E.res[p])
AgreeOK == \A p \in 1..Len(E.res) : E.res[p] = E.res[1]
\* C03: a value marked integral is a whole number
FlagOK == E.integral => \A p \in 1..Len(E.res) : E.res[p] % (2 ^ E.f) = 0
=======================================================================
