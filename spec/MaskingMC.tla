---------------------------- MODULE MaskingMC ----------------------------
(* one initial state per (protocol, pair of secrets): TLC evaluates the statistical distance of the two views *)
EXTENDS Masking
VARIABLES proto, a1, a2
Protos == {"trunc", "lsb", "tobits", "sgn", "mod", "zero", "convert"}
Init == /\ proto \in Protos
        /\ a1 \in (IF proto = "zero" THEN 1..(P - 1) ELSE Secrets)
        /\ a2 \in (IF proto = "zero" THEN 1..(P - 1) ELSE Secrets)
        /\ a1 < a2
Next == UNCHANGED <<proto, a1, a2>>
Pair(V(_, _), M) == SD2M(V, M, a1, a2) * (2 ^ K) <= 2 * Cardinality(M) * D
TruncOK == proto = "trunc" => Pair(TruncView, TruncMasks)
LsbOK == proto = "lsb" => Pair(LsbView, LsbMasks)
ToBitsOK == proto = "tobits" => Pair(ToBitsView, ToBitsMasks)
SgnOK == proto = "sgn" => Pair(SgnView, SgnMasks)
ModOK == proto = "mod" => Pair(ModView, ModMasks)
ConvOK == proto = "convert" => Pair(ConvView, ConvMasks)
ZeroOK == proto = "zero" => SD2M(ZeroView, ZeroMasks, a1, a2) = 0
=========================================================================
